//go:build verifsched

// c07run is the explorer side of C07. It only builds against the instrumented overlay produced by cmd/vinstr
// (it calls the generated VerifSnapshot functions and the injected vsched package).
//
//	c07run explore <scenario> <cfg> <bound> <shard> <nshards> <gran> <deadline_s>
//	c07run replay  <file.json>
//	c07run info    <scenario> <cfg>
package main

import (
	"bytes"
	"encoding/json"
	"fmt"
	"os"
	"strconv"
	"strings"
	"time"

	"github.com/yuin/goldmark"
	gast "github.com/yuin/goldmark/ast"
	"github.com/yuin/goldmark/extension"
	east "github.com/yuin/goldmark/extension/ast"
	"github.com/yuin/goldmark/parser"
	"github.com/yuin/goldmark/renderer"
	"github.com/yuin/goldmark/renderer/html"
	"github.com/yuin/goldmark/text"
	"github.com/yuin/goldmark/util"
	"github.com/yuin/goldmark/vsched"

	"verif/internal/c07sc"
	"verif/internal/core"
)

var restores []func()

func snapshotAll() {
	restores = []func(){goldmark.VerifSnapshot(), gast.VerifSnapshot(), extension.VerifSnapshot(), east.VerifSnapshot(),
		parser.VerifSnapshot(), renderer.VerifSnapshot(), html.VerifSnapshot(), text.VerifSnapshot(), util.VerifSnapshot()}
}

func restoreAll() {
	for _, f := range restores {
		f()
	}
}

type outcome struct {
	Out   string `json:"out"`
	Err   string `json:"err,omitempty"`
	Panic string `json:"panic,omitempty"`
}

type explorer struct {
	sc      *c07sc.Scenario
	cfg     core.Cfg
	opts    vsched.Options
	seq     []outcome // sequential reference per thread
	bound   int
	shard   int
	nshards int
	dl      time.Time
	pidx    int

	Execs      int64            `json:"executions"`
	StepsTotal int64            `json:"steps_total"`
	MaxSteps   int              `json:"max_steps"`
	SeqSteps   int              `json:"sequential_steps"`
	Blocked    int64            `json:"executions_with_blocking"`
	Shapes     map[uint64]bool  `json:"-"`
	NShapes    int              `json:"distinct_schedule_shapes"`
	Outcomes   map[string]int64 `json:"-"`
	NOutcomes  int              `json:"distinct_outcomes"`
	Harness    []string         `json:"harness_errors,omitempty"`
	Violations []violation      `json:"violations,omitempty"`
	Complete   bool             `json:"complete"`
	ByCost     map[int]int64    `json:"executions_by_preemptions"`
	Scenario   string           `json:"scenario"`
	Cfg        string           `json:"cfg"`
	Bound      int              `json:"bound"`
	Gran       string           `json:"granularity"`
	WallS      float64          `json:"wall_s"`
}

type violation struct {
	Kind      string            `json:"kind"`
	Scenario  string            `json:"scenario"`
	Cfg       string            `json:"cfg"`
	Gran      string            `json:"granularity"`
	Decisions []vsched.Decision `json:"decisions"`
	Thread    int               `json:"thread"`
	Expected  outcome           `json:"expected"`
	Actual    outcome           `json:"actual"`
	Confirmed bool              `json:"confirmed_by_two_replays"`
	Detail    string            `json:"detail"`
}

func (e *explorer) runOnce(D []vsched.Decision) (*vsched.Trace, []outcome) {
	restoreAll()
	inst := e.sc.New(e.cfg)
	res := make([]c07sc.Result, len(inst.Bodies))
	bodies := make([]func(), len(inst.Bodies))
	for i := range inst.Bodies {
		i := i
		bodies[i] = func() { res[i] = inst.Bodies[i]() }
	}
	tr := vsched.Run(bodies, D, e.opts)
	outs := make([]outcome, len(res))
	for i, r := range res {
		outs[i].Out = string(r.Out)
		if r.Err != nil {
			outs[i].Err = r.Err.Error()
		}
		if tr.Panics[i] != nil {
			outs[i].Panic = fmt.Sprint(tr.Panics[i]) + " @ " + panicSite(tr.Stacks[i])
			outs[i].Out = ""
		}
	}
	return tr, outs
}

func panicSite(st string) string {
	i := strings.Index(st, "panic(")
	if i < 0 {
		i = 0
	}
	for _, ln := range strings.Split(st[i:], "\n") {
		if strings.HasPrefix(ln, "github.com/yuin/goldmark") && !strings.Contains(ln, "/vsched.") {
			if j := strings.LastIndex(ln, "("); j > 0 {
				ln = ln[:j]
			}
			return strings.TrimPrefix(ln, "github.com/yuin/goldmark")
		}
	}
	return "?"
}

func (e *explorer) reference() {
	n := e.sc.Threads
	e.seq = make([]outcome, n)
	for i := 0; i < n; i++ {
		restoreAll()
		inst := e.sc.New(e.cfg)
		var r c07sc.Result
		var pan any
		func() {
			defer func() { pan = recover() }()
			r = inst.Bodies[i]()
		}()
		e.seq[i].Out = string(r.Out)
		if r.Err != nil {
			e.seq[i].Err = r.Err.Error()
		}
		if pan != nil {
			e.seq[i].Panic = fmt.Sprint(pan)
		}
	}
	e.opts.Horizon = 0
	tr, _ := e.runOnce(nil)
	e.SeqSteps = tr.Steps
	e.opts.Horizon = 4*tr.Steps + 10000
}

func shapeHash(tr *vsched.Trace) uint64 {
	h := uint64(1469598103934665603)
	for _, s := range tr.Segments {
		h = core.HashMix(h, uint64(s.Thread)<<40|uint64(s.Start)<<8|uint64(s.Enabled))
	}
	return h
}

// check judges one execution; returns false if it must not be extended.
func (e *explorer) check(D []vsched.Decision, tr *vsched.Trace, outs []outcome) bool {
	e.Execs++
	e.StepsTotal += int64(tr.Steps)
	if tr.Steps > e.MaxSteps {
		e.MaxSteps = tr.Steps
	}
	if len(tr.FreePoints) > e.sc.Threads {
		e.Blocked++
	}
	if len(e.Shapes) < 1<<20 {
		e.Shapes[shapeHash(tr)] = true
	}
	cost := 0
	for _, d := range D {
		if !d.Free {
			cost++
		}
	}
	e.ByCost[cost]++
	if tr.BadSched != "" {
		if len(e.Harness) < 5 {
			e.Harness = append(e.Harness, fmt.Sprintf("%s (decisions %v)", tr.BadSched, D))
		}
		return false
	}
	key, _ := json.Marshal(outs)
	e.Outcomes[string(key)]++
	kind, thread, detail := "", -1, ""
	switch {
	case tr.Deadlock:
		kind, detail = "deadlock", "no thread can run although not all have finished"
	case tr.Horizon:
		kind, detail = "livelock-or-runaway", fmt.Sprintf("execution exceeded the horizon of %d steps (sequential run: %d)", e.opts.Horizon, e.SeqSteps)
	default:
		for i := range outs {
			if outs[i] != e.seq[i] {
				thread = i
				switch {
				case outs[i].Panic != "":
					kind, detail = "panic", outs[i].Panic
				case outs[i].Err != e.seq[i].Err:
					kind, detail = "error", outs[i].Err
				default:
					kind, detail = "output-differs-from-sequential", firstDiff(e.seq[i].Out, outs[i].Out)
				}
				break
			}
		}
	}
	if kind == "" {
		return true
	}
	v := violation{Kind: kind, Scenario: e.sc.Name, Cfg: e.cfg.String(), Gran: e.Gran, Decisions: append([]vsched.Decision{}, D...), Thread: thread, Detail: detail, Confirmed: true}
	if thread >= 0 {
		v.Expected, v.Actual = e.seq[thread], outs[thread]
	}
	for k := 0; k < 2; k++ {
		tr2, outs2 := e.runOnce(D)
		k2, _ := json.Marshal(outs2)
		if string(k2) != string(key) || tr2.Deadlock != tr.Deadlock || tr2.Horizon != tr.Horizon || tr2.Steps != tr.Steps {
			v.Confirmed = false
		}
	}
	// keep the cheapest witness per kind+thread
	for i := range e.Violations {
		if e.Violations[i].Kind == v.Kind && e.Violations[i].Thread == v.Thread {
			if len(v.Decisions) < len(e.Violations[i].Decisions) {
				e.Violations[i] = v
			}
			return false
		}
	}
	if len(e.Violations) < 20 {
		e.Violations = append(e.Violations, v)
	}
	return false
}

func firstDiff(a, b string) string {
	i := 0
	for i < len(a) && i < len(b) && a[i] == b[i] {
		i++
	}
	lo := i - 30
	if lo < 0 {
		lo = 0
	}
	hiA, hiB := i+50, i+50
	if hiA > len(a) {
		hiA = len(a)
	}
	if hiB > len(b) {
		hiB = len(b)
	}
	return fmt.Sprintf("first difference at byte %d: sequential %q, concurrent %q", i, a[lo:hiA], b[lo:hiB])
}

// children enumerates the decisions that may extend D, in execution order.
func children(D []vsched.Decision, tr *vsched.Trace, cost, bound int, f func(d vsched.Decision)) {
	n := len(D)
	lastStep := -1
	if n > 0 && !D[n-1].Free {
		lastStep = D[n-1].Step
	}
	if n > 0 && D[n-1].Free && D[n-1].FP < len(tr.FreePoints) {
		// the thread chosen at a free point starts at that step: preempting it there equals another free choice
		lastStep = tr.FreePoints[D[n-1].FP].Step
	}
	fi := 0
	emitFree := func(upToStep int, inclusive bool) {
		for fi < len(tr.FreePoints) {
			fp := tr.FreePoints[fi]
			if fp.Step > upToStep || (fp.Step == upToStep && !inclusive) {
				return
			}
			if fp.Decs == n {
				for t := 0; t < 32; t++ {
					if fp.Enabled&(1<<uint(t)) != 0 && t != fp.Chosen {
						f(vsched.Decision{Free: true, FP: fi, Step: fp.Step, Thread: t})
					}
				}
			}
			fi++
		}
	}
	for _, s := range tr.Segments {
		emitFree(s.Start, true)
		if s.Decs != n || cost >= bound {
			continue
		}
		for g := s.Start; g < s.End; g++ {
			if g <= lastStep || (g == s.Start && !s.Cont) {
				// the first point of a segment is where its thread was started, resumed or switched to: taking the
				// baton away there equals choosing the other thread one decision earlier (same or lower cost)
				continue
			}
			for t := 0; t < 32; t++ {
				if s.Enabled&(1<<uint(t)) != 0 && t != s.Thread {
					f(vsched.Decision{Step: g, Thread: t})
				}
			}
		}
	}
	emitFree(1<<62, true)
}

// explore runs D, judges it and extends it. The tree of executions without any preemption (free decisions only) is
// walked by every shard but judged by shard 0 only; the first preemption is where the shards split the work.
func (e *explorer) explore(D []vsched.Decision, cost int) {
	if time.Now().After(e.dl) {
		e.Complete = false
		return
	}
	tr, outs := e.runOnce(D)
	if cost > 0 || e.shard == 0 {
		if !e.check(D, tr, outs) {
			return
		}
	} else if tr.BadSched != "" || tr.Deadlock || tr.Horizon {
		return
	}
	children(D, tr, cost, e.bound, func(d vsched.Decision) {
		c := cost
		if !d.Free {
			c++
			if cost == 0 {
				e.pidx++
				if (e.pidx-1)%e.nshards != e.shard {
					return
				}
			}
		}
		if c > e.bound {
			return
		}
		e.explore(append(append([]vsched.Decision{}, D...), d), c)
	})
}

func main() {
	if len(os.Args) < 2 {
		fmt.Println("usage: c07run explore|replay|info ...")
		os.Exit(2)
	}
	snapshotAll()
	switch os.Args[1] {
	case "info":
		sc := c07sc.Find(os.Args[2])
		e := &explorer{sc: sc, cfg: core.MustCfg(os.Args[3]), Shapes: map[uint64]bool{}, Outcomes: map[string]int64{}, ByCost: map[int]int64{}}
		e.reference()
		e.opts.FuncGran = true
		trf, _ := e.runOnce(nil)
		fmt.Printf("{\"scenario\":%q,\"sequential_steps_stmt\":%d,\"sequential_steps_func\":%d}\n", sc.Name, e.SeqSteps, trf.Steps)
	case "cover":
		// c07run cover <funcs.json> <cfg>: which instrumented functions do the scenarios execute under the scheduler?
		var names []string
		raw, _ := os.ReadFile(os.Args[2])
		_ = json.Unmarshal(raw, &names)
		vsched.CovOn = true
		for _, scn := range c07sc.Scenarios {
			if strings.HasPrefix(scn.Name, "S7") {
				continue
			}
			sc := scn
			e := &explorer{sc: &sc, cfg: core.MustCfg(os.Args[3]), Shapes: map[uint64]bool{}, Outcomes: map[string]int64{}, ByCost: map[int]int64{}}
			e.reference()
			e.runOnce(nil)
			e.runOnce([]vsched.Decision{{Free: true, FP: 0, Thread: 1}})
		}
		vsched.CovOn = false
		type rep struct {
			Total        int      `json:"functions_instrumented"`
			Managed      int      `json:"executed_by_a_managed_goroutine"`
			Shared       int      `json:"executed_by_two_or_more_managed_goroutines"`
			OnlyUnmanged int      `json:"executed_only_outside_the_scheduler"`
			Never        []string `json:"never_executed"`
		}
		var rp rep
		rp.Total = len(names)
		for id, nm := range names {
			c := vsched.Cov[id]
			m := c & 0x0f
			switch {
			case m != 0:
				rp.Managed++
				if m&(m-1) != 0 {
					rp.Shared++
				}
			case c != 0:
				rp.OnlyUnmanged++
			default:
				rp.Never = append(rp.Never, nm)
			}
		}
		b, _ := json.Marshal(rp)
		fmt.Println(string(b))
	case "explore":
		a := os.Args[2:]
		sc := c07sc.Find(a[0])
		if sc == nil {
			fmt.Println("unknown scenario")
			os.Exit(2)
		}
		bound, _ := strconv.Atoi(a[2])
		shard, _ := strconv.Atoi(a[3])
		nsh, _ := strconv.Atoi(a[4])
		dls, _ := strconv.Atoi(a[6])
		e := &explorer{sc: sc, cfg: core.MustCfg(a[1]), bound: bound, shard: shard, nshards: nsh, Shapes: map[uint64]bool{}, Outcomes: map[string]int64{}, ByCost: map[int]int64{},
			Complete: true, Scenario: sc.Name, Cfg: a[1], Bound: bound, Gran: a[5], dl: time.Now().Add(time.Duration(dls) * time.Second)}
		e.opts.FuncGran = a[5] == "func"
		t0 := time.Now()
		e.reference()
		e.explore(nil, 0)
		e.NShapes, e.NOutcomes = len(e.Shapes), len(e.Outcomes)
		e.WallS = time.Since(t0).Seconds()
		b, _ := json.Marshal(e)
		fmt.Println(string(b))
	case "replay":
		raw, err := os.ReadFile(os.Args[2])
		if err != nil {
			fmt.Println(err)
			os.Exit(2)
		}
		var v violation
		if err := json.Unmarshal(raw, &v); err != nil {
			// a replay file written by vcheck wraps the violation in "ops"
			fmt.Println(err)
			os.Exit(2)
		}
		sc := c07sc.Find(v.Scenario)
		e := &explorer{sc: sc, cfg: core.MustCfg(v.Cfg), Shapes: map[uint64]bool{}, Outcomes: map[string]int64{}, ByCost: map[int]int64{}, Gran: v.Gran}
		e.opts.FuncGran = v.Gran == "func"
		e.reference()
		fail := false
		var first []byte
		for k := 0; k < 2; k++ {
			tr, outs := e.runOnce(v.Decisions)
			ob, _ := json.Marshal(outs)
			if k == 0 {
				first = ob
			} else if !bytes.Equal(first, ob) {
				fmt.Println("REPLAY-NONDETERMINISTIC")
			}
			fmt.Printf("replay %d: steps=%d deadlock=%v horizon=%v badsched=%q\n", k, tr.Steps, tr.Deadlock, tr.Horizon, tr.BadSched)
			if os.Getenv("C07_TRACE") != "" {
				for _, sg := range tr.Segments {
					fmt.Printf("   seg %+v\n", sg)
				}
				for _, fp := range tr.FreePoints {
					fmt.Printf("   fp %+v\n", fp)
				}
			}
			for i := range outs {
				if outs[i] != e.seq[i] || tr.Deadlock || tr.Horizon {
					fail = true
					fmt.Printf("  thread %d differs: %s\n", i, firstDiff(e.seq[i].Out, outs[i].Out))
					if outs[i].Panic != "" {
						fmt.Printf("  thread %d panic: %s\n", i, outs[i].Panic)
					}
				}
			}
		}
		if fail {
			fmt.Println("REPLAY-FAILS")
			os.Exit(1)
		}
		fmt.Println("REPLAY-PASSES")
	}
}
