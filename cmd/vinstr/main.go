// vinstr writes an instrumented copy of the goldmark library packages plus a go build -overlay file.
//
//	vinstr <repo dir> <out dir> [--plain]
//
// For every non-test .go file of the library packages it inserts vsched.P() before every statement (vsched.PF() before
// the first statement of a function), replaces sync.Once/Mutex/RWMutex/Pool by their vsched counterparts, and adds to each
// package a generated file with VerifSnapshot(), which captures every package-level variable and returns a function
// restoring them. The shim package is added as the virtual package <module>/vsched. /repo is not modified.
// With --plain only the virtual package is added (used for the uninstrumented -race build).
package main

import (
	"bytes"
	"encoding/json"
	"fmt"
	"go/ast"
	"go/parser"
	"go/printer"
	"go/token"
	"os"
	"path/filepath"
	"sort"
	"strings"
)

const modPath = "github.com/yuin/goldmark"

var libDirs = []string{".", "ast", "parser", "renderer", "renderer/html", "text", "util", "extension", "extension/ast"}

var funcNames []string // id -> package-qualified function name (for the coverage report)

var syncMap = map[string]string{"Once": "Once", "Mutex": "Mutex", "RWMutex": "RWMutex", "Pool": "Pool"}

func fatal(f string, a ...any) {
	fmt.Fprintf(os.Stderr, "vinstr: "+f+"\n", a...)
	os.Exit(2)
}

func main() {
	if len(os.Args) < 3 {
		fatal("usage: vinstr <repo> <out> [--plain]")
	}
	repo, _ := filepath.Abs(os.Args[1])
	out, _ := filepath.Abs(os.Args[2])
	plain := len(os.Args) > 3 && os.Args[3] == "--plain"
	shim := os.Getenv("VERIF_SHIM")
	if shim == "" {
		shim = "/verif/shim/vsched/vsched.go"
	}
	overlay := map[string]string{filepath.Join(repo, "vsched", "vsched.go"): shim}
	points, files, vars := 0, 0, 0
	if !plain {
		for _, d := range libDirs {
			dir := filepath.Join(repo, d)
			ents, err := os.ReadDir(dir)
			if err != nil {
				fatal("%v", err)
			}
			var pkgName string
			var globals []string
			for _, e := range ents {
				n := e.Name()
				if e.IsDir() || !strings.HasSuffix(n, ".go") || strings.HasSuffix(n, "_test.go") {
					continue
				}
				src := filepath.Join(dir, n)
				curPkgLabel = d
				res := instrumentFile(src)
				if res.pkg == "" {
					continue
				}
				if strings.HasSuffix(res.pkg, "_test") {
					continue
				}
				pkgName = res.pkg
				if res.active {
					globals = append(globals, res.globals...)
				}
				dst := filepath.Join(out, strings.ReplaceAll(d, "/", "_")+"__"+n)
				if err := os.WriteFile(dst, res.code, 0o644); err != nil {
					fatal("%v", err)
				}
				overlay[src] = dst
				points += res.points
				files++
			}
			if pkgName != "" {
				sort.Strings(globals)
				vars += len(globals)
				var b bytes.Buffer
				fmt.Fprintf(&b, "package %s\n\n// VerifSnapshot captures every package-level variable and returns a function that restores them.\nfunc VerifSnapshot() func() {\n", pkgName)
				for i, g := range globals {
					fmt.Fprintf(&b, "\tv%d := %s\n", i, g)
				}
				b.WriteString("\treturn func() {\n")
				for i, g := range globals {
					fmt.Fprintf(&b, "\t\t%s = v%d\n", g, i)
				}
				b.WriteString("\t}\n}\n")
				dst := filepath.Join(out, strings.ReplaceAll(d, "/", "_")+"__zz_verif_snapshot.go")
				if err := os.WriteFile(dst, b.Bytes(), 0o644); err != nil {
					fatal("%v", err)
				}
				overlay[filepath.Join(dir, "zz_verif_snapshot.go")] = dst
			}
		}
	}
	fb, _ := json.Marshal(funcNames)
	_ = os.WriteFile(filepath.Join(out, "funcs.json"), fb, 0o644)
	ob, _ := json.MarshalIndent(map[string]any{"Replace": overlay}, "", " ")
	if err := os.WriteFile(filepath.Join(out, "overlay.json"), ob, 0o644); err != nil {
		fatal("%v", err)
	}
	fmt.Printf("{\"files\":%d,\"points\":%d,\"globals\":%d}\n", files, points, vars)
}

type result struct {
	pkg     string
	code    []byte
	points  int
	globals []string
	active  bool // file is part of the default build (no excluding build constraint)
}

var curPkgLabel string

func instrumentFile(path string) result {
	fset := token.NewFileSet()
	f, err := parser.ParseFile(fset, path, nil, parser.ParseComments)
	if err != nil {
		fatal("%v", err)
	}
	res := result{pkg: f.Name.Name, active: true}
	// keep only the comments in front of the package clause (build constraints); inserted statements carry no position
	// and would otherwise attract stray comments
	var keep []*ast.CommentGroup
	header := ""
	for _, cg := range f.Comments {
		if cg.End() < f.Package {
			keep = append(keep, cg)
			header += cg.Text()
			for _, c := range cg.List {
				header += c.Text + "\n"
			}
		}
	}
	f.Comments = keep
	f.Doc = nil
	if strings.Contains(header, "go:build") && (strings.Contains(header, "appengine ||") || strings.Contains(header, "!go1.21")) {
		res.active = false // not compiled in this environment; its globals must not be referenced
	}

	// the name under which "sync" is imported in this file
	syncName := ""
	for _, im := range f.Imports {
		if im.Path.Value == `"sync"` {
			syncName = "sync"
			if im.Name != nil {
				syncName = im.Name.Name
			}
		}
		if im.Path.Value == `"sync/atomic"` {
			fatal("%s imports sync/atomic: unmodelled primitive (the cooperative scheduler cannot order atomics)", path)
		}
	}
	usesVsched := false
	otherSync := false
	if syncName != "" {
		ast.Inspect(f, func(n ast.Node) bool {
			se, ok := n.(*ast.SelectorExpr)
			if !ok {
				return true
			}
			id, ok := se.X.(*ast.Ident)
			if !ok || id.Name != syncName || id.Obj != nil {
				return true
			}
			if repl, ok := syncMap[se.Sel.Name]; ok {
				id.Name = "vsched"
				se.Sel.Name = repl
				usesVsched = true
			} else {
				otherSync = true
				fmt.Fprintf(os.Stderr, "vinstr: %s uses sync.%s, which is not modelled (left as is)\n", path, se.Sel.Name)
			}
			return true
		})
	}

	// statements
	var instrBlock func(list []ast.Stmt, first bool) []ast.Stmt
	call := func(name string) ast.Stmt {
		return &ast.ExprStmt{X: &ast.CallExpr{Fun: &ast.SelectorExpr{X: ast.NewIdent("vsched"), Sel: ast.NewIdent(name)}}}
	}
	callID := func(id int) ast.Stmt {
		return &ast.ExprStmt{X: &ast.CallExpr{Fun: &ast.SelectorExpr{X: ast.NewIdent("vsched"), Sel: ast.NewIdent("C")},
			Args: []ast.Expr{&ast.BasicLit{Kind: token.INT, Value: fmt.Sprint(id)}}}}
	}
	_ = callID
	instrBlock = func(list []ast.Stmt, first bool) []ast.Stmt {
		out := make([]ast.Stmt, 0, 2*len(list))
		for i, s := range list {
			if first && i == 0 {
				out = append(out, call("PF"))
			} else {
				out = append(out, call("P"))
			}
			res.points++
			out = append(out, s)
		}
		return out
	}
	funcBodies := map[*ast.BlockStmt]bool{}
	funcName := map[*ast.BlockStmt]string{}
	clauseLists := map[*ast.BlockStmt]bool{} // bodies of switch/select: lists of clauses, not statements
	ast.Inspect(f, func(n ast.Node) bool {
		switch x := n.(type) {
		case *ast.FuncDecl:
			if x.Body != nil {
				funcBodies[x.Body] = true
				nm := x.Name.Name
				if x.Recv != nil && len(x.Recv.List) > 0 {
					var rb bytes.Buffer
					_ = printer.Fprint(&rb, fset, x.Recv.List[0].Type)
					nm = "(" + rb.String() + ")." + nm
				}
				funcName[x.Body] = curPkgLabel + ":" + nm
			}
		case *ast.FuncLit:
			funcBodies[x.Body] = true
			funcName[x.Body] = fmt.Sprintf("%s:func@%s:%d", curPkgLabel, filepath.Base(path), fset.Position(x.Pos()).Line)
		case *ast.SwitchStmt:
			clauseLists[x.Body] = true
		case *ast.TypeSwitchStmt:
			clauseLists[x.Body] = true
		case *ast.SelectStmt:
			clauseLists[x.Body] = true
		}
		return true
	})
	ast.Inspect(f, func(n ast.Node) bool {
		switch x := n.(type) {
		case *ast.BlockStmt:
			if !clauseLists[x] {
				x.List = instrBlock(x.List, funcBodies[x])
				if funcBodies[x] && len(x.List) > 0 {
					id := len(funcNames)
					funcNames = append(funcNames, funcName[x])
					x.List = append([]ast.Stmt{callID(id)}, x.List...)
				}
			}
		case *ast.CaseClause:
			x.Body = instrBlock(x.Body, false)
		case *ast.CommClause:
			x.Body = instrBlock(x.Body, false)
		}
		return true
	})
	if res.points > 0 {
		usesVsched = true
	}

	// package-level variables
	for _, d := range f.Decls {
		gd, ok := d.(*ast.GenDecl)
		if !ok || gd.Tok != token.VAR {
			continue
		}
		for _, sp := range gd.Specs {
			for _, nm := range sp.(*ast.ValueSpec).Names {
				if nm.Name != "_" {
					res.globals = append(res.globals, nm.Name)
				}
			}
		}
	}

	// imports: add vsched, drop sync if no longer used
	if usesVsched {
		imp := &ast.ImportSpec{Path: &ast.BasicLit{Kind: token.STRING, Value: `"` + modPath + `/vsched"`}}
		added := false
		for _, d := range f.Decls {
			if gd, ok := d.(*ast.GenDecl); ok && gd.Tok == token.IMPORT {
				gd.Specs = append(gd.Specs, imp)
				if !gd.Lparen.IsValid() {
					gd.Lparen = gd.Pos()
					gd.Rparen = gd.End()
				}
				added = true
				break
			}
		}
		if !added {
			f.Decls = append([]ast.Decl{&ast.GenDecl{Tok: token.IMPORT, Specs: []ast.Spec{imp}}}, f.Decls...)
		}
	}
	if syncName != "" && !otherSync {
		for _, d := range f.Decls {
			gd, ok := d.(*ast.GenDecl)
			if !ok || gd.Tok != token.IMPORT {
				continue
			}
			var specs []ast.Spec
			for _, sp := range gd.Specs {
				if sp.(*ast.ImportSpec).Path.Value != `"sync"` {
					specs = append(specs, sp)
				}
			}
			gd.Specs = specs
		}
	}
	var buf bytes.Buffer
	if err := (&printer.Config{Mode: printer.UseSpaces | printer.TabIndent, Tabwidth: 8}).Fprint(&buf, fset, f); err != nil {
		fatal("print %s: %v", path, err)
	}
	res.code = buf.Bytes()
	return res
}
