// vcheck runs one property check: vcheck <ID> [--tier quick|thorough] [--replay file]
package main

import (
	"fmt"
	"os"
	"sort"
	"time"

	"verif/internal/core"
	"verif/internal/props"
)

func main() {
	if len(os.Args) < 2 {
		var ids []string
		for id := range props.Registry {
			ids = append(ids, id)
		}
		sort.Strings(ids)
		fmt.Println("usage: vcheck <ID> [--tier quick|thorough] [--replay file]; ids:", ids)
		os.Exit(2)
	}
	id := os.Args[1]
	tier := os.Getenv("VERIF_TIER")
	if tier == "" {
		tier = "quick"
	}
	replay := ""
	var rest []string
	for i := 2; i < len(os.Args); i++ {
		switch os.Args[i] {
		case "--tier":
			i++
			tier = os.Args[i]
		case "--replay":
			i++
			replay = os.Args[i]
		default:
			rest = append(rest, os.Args[i])
		}
	}
	c := props.Registry[id]
	if c == nil {
		fmt.Println("unknown property", id)
		os.Exit(2)
	}
	if len(rest) > 0 && rest[0] == "--worker" && c.Workers != nil {
		os.Exit(c.Workers(rest[1:]))
	}
	if tier != "quick" && tier != "thorough" {
		fmt.Println("unknown tier", tier)
		os.Exit(2)
	}
	r := core.NewRun(id, tier, c.Budget(tier))
	// no evaluation anywhere for this long = stuck (the slowest single case of any check is a few seconds)
	stall := 5 * time.Minute
	if tier == "thorough" {
		stall = 15 * time.Minute
	}
	r.StartStallGuard(stall)
	if c.Level != "" {
		r.Level = c.Level
	}
	if replay != "" {
		v, err := core.ReadReplay(replay)
		if err != nil {
			fmt.Println("cannot read replay:", err)
			os.Exit(2)
		}
		if c.Replay == nil {
			fmt.Println("no replay function for", id)
			os.Exit(2)
		}
		os.Setenv("VERIF_NO_EVIDENCE", "1")
		c.Replay(r, v)
		os.Exit(r.Finish())
	}
	c.Run(r)
	os.Exit(r.Finish())
}
