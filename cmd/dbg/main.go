package main

import (
	"bytes"
	"fmt"
	"os"

	"verif/internal/core"
)

func main() {
	cv := core.NewConv(core.MustCfg(os.Args[1]))
	for _, a := range os.Args[2:] {
		var b bytes.Buffer
		cv.MD.Convert([]byte(a), &b)
		fmt.Printf("%q -> %q\n", a, b.String())
	}
}
