// c07race is the free-running companion pass of C07: the same scenario bodies run as real goroutines, released together
// through a barrier, in a binary built with -race and without the cooperative scheduler (whose hand-offs would be
// happens-before edges hiding every race). It is sampling, reported separately from the exhaustive exploration.
//
//	c07race <scenario> <cfg> <rounds>
package main

import (
	"fmt"
	"os"
	"runtime"
	"strconv"
	"sync"

	"verif/internal/c07sc"
	"verif/internal/core"
)

func main() {
	sc := c07sc.Find(os.Args[1])
	cfg := core.MustCfg(os.Args[2])
	rounds, _ := strconv.Atoi(os.Args[3])
	// sequential reference from separate instances; for scenarios on process-wide lazy state this also performs the
	// first use, so the reference is taken AFTER the racing rounds for round 0
	bad := 0
	var ref []c07sc.Result
	for r := 0; r < rounds; r++ {
		inst := sc.New(cfg)
		n := len(inst.Bodies)
		res := make([]c07sc.Result, n)
		pan := make([]any, n)
		var start, done sync.WaitGroup
		start.Add(1)
		for i := 0; i < n; i++ {
			done.Add(1)
			go func(i int) {
				defer done.Done()
				defer func() { pan[i] = recover() }()
				start.Wait()
				if (i+r)%2 == 1 {
					runtime.Gosched()
				}
				res[i] = inst.Bodies[i]()
			}(i)
		}
		start.Done()
		done.Wait()
		if ref == nil {
			for i := 0; i < n; i++ {
				one := sc.New(cfg)
				ref = append(ref, one.Bodies[i]())
			}
		}
		for i := 0; i < n; i++ {
			if pan[i] != nil {
				fmt.Printf("MISMATCH round=%d thread=%d panic=%v\n", r, i, pan[i])
				bad++
			} else if string(res[i].Out) != string(ref[i].Out) || (res[i].Err == nil) != (ref[i].Err == nil) {
				fmt.Printf("MISMATCH round=%d thread=%d got=%q want=%q err=%v\n", r, i, clip(res[i].Out), clip(ref[i].Out), res[i].Err)
				bad++
			}
		}
	}
	fmt.Printf("RACEPASS scenario=%s cfg=%s rounds=%d gomaxprocs=%d mismatches=%d\n", sc.Name, cfg, rounds, runtime.GOMAXPROCS(0), bad)
	if bad > 0 {
		os.Exit(1)
	}
}

func clip(b []byte) string {
	if len(b) > 300 {
		return string(b[:300]) + "..."
	}
	return string(b)
}
