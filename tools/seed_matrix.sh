#!/bin/bash
# Runs, for every seeded change, the quick check of the property it breaks (and any extra check ids given in
# seeded/<id>/also.txt) against a scratch worktree with the change applied; writes seeded/MATRIX.md.
cd "$(dirname "$0")/.."
OUT=seeded/MATRIX.md
echo "| seed | property | check | exit | first violation signature |" > $OUT.tmp
echo "|---|---|---|---|---|" >> $OUT.tmp
for d in seeded/*/; do
  sid=$(basename $d); [ -f $d/patch.diff ] || continue
  pid=$(jq -r .breaks_property $d/meta.json)
  for chk in $pid $(cat $d/also.txt 2>/dev/null); do
    o=$(tools/try_patch.sh $d/patch.diff $chk 2>&1)
    code=$(echo "$o" | grep -o "CHECK $chk exit=[0-9]*" | grep -o "[0-9]*$")
    sig=$(echo "$o" | grep -m1 "^VIOLATION" | grep -o "sub=[^ ]* sig=[^ ]*" | cut -c1-120)
    echo "| $sid | $pid | $chk | $code | $sig |" >> $OUT.tmp
    echo "$sid $chk exit=$code $sig"
  done
done
mv $OUT.tmp $OUT
