#!/bin/bash
# usage: tools/harvest_seed.sh <worktree dir> <seed id> <property id> [check ids...]
# Takes a sub-agent's scratch worktree (source change applied, demo test present), stores patch + demo under
# /verif/seeded/<seed id>/, confirms independently in a fresh scratch worktree that (a) the repository's suite passes
# with the patch, (b) the demo fails with it and (c) passes without it, then runs the listed quick checks against it.
set -u
SRC=$(readlink -f "$1"); SID="$2"; PID="$3"; shift 3
export GOFLAGS=-mod=mod GOPROXY=off GOSUMDB=off GOTOOLCHAIN=local
OUT=/verif/seeded/$SID; mkdir -p "$OUT"
# demo files: untracked *_test.go (and untracked dirs); patch: tracked changes
git -C "$SRC" diff > "$OUT/patch.diff"
mkdir -p "$OUT/demo"
(cd "$SRC" && git ls-files --others --exclude-standard | grep -v SEED_REPORT | while read f; do mkdir -p "$OUT/demo/$(dirname "$f")"; cp "$f" "$OUT/demo/$f"; done)
[ -f "$SRC/SEED_REPORT.md" ] && cp "$SRC/SEED_REPORT.md" "$OUT/agent_report.md"
W=$(mktemp -d /tmp/vhar.XXXXXX)
git -C /repo worktree add -q --detach "$W/r" HEAD
cleanup() { git -C /repo worktree remove --force "$W/r" 2>/dev/null; rm -rf "$W"; }
trap cleanup EXIT
cd "$W/r"
git apply "$OUT/patch.diff" || { echo "PATCH-DOES-NOT-APPLY"; exit 3; }
if go test -vet=off -count=1 ./... > "$W/suite.log" 2>&1; then SUITE=pass; else SUITE=FAIL; tail -5 "$W/suite.log"; fi
cp -r "$OUT/demo/." "$W/r/"
RACE=""; grep -rqs "race" "$OUT/agent_report.md" && grep -rqs "sync\.\|go func" "$OUT"/demo/*_test.go "$OUT"/demo/*/*_test.go 2>/dev/null && RACE="-race"
DEMOPKGS=$(cd "$OUT/demo" && find . -name '*_test.go' -exec dirname {} \; | sort -u | tr '\n' ' ')
if go test -vet=off -count=1 $RACE -run 'TestSeedDemo' $DEMOPKGS > "$W/demo_with.log" 2>&1; then WITH=pass; else WITH=fail; fi
git apply -R "$OUT/patch.diff"
if go test -vet=off -count=1 $RACE -run 'TestSeedDemo' $DEMOPKGS > "$W/demo_without.log" 2>&1; then WITHOUT=pass; else WITHOUT=fail; tail -5 "$W/demo_without.log"; fi
echo "SEED $SID property=$PID suite_with_patch=$SUITE demo_with_patch=$WITH demo_without_patch=$WITHOUT race_flag='$RACE'"
cd /verif
RES=""
for id in "$@"; do
  o=$(tools/try_patch.sh "$OUT/patch.diff" "$id" 2>&1 | tail -1)
  echo "  $o" | cut -c1-300
  RES="$RES $id:$(echo "$o" | grep -o 'exit=[0-9]*')"
done
echo "{\"seed\":\"$SID\",\"property\":\"$PID\",\"suite_with_patch\":\"$SUITE\",\"demo_with_patch\":\"$WITH\",\"demo_without_patch\":\"$WITHOUT\",\"checks\":\"$RES\"}" > "$OUT/harvest.json"
