#!/usr/bin/env python3
# usage: tools/mkmeta.py <seed id> <property> <round> "<what it needs to manifest>"
# Writes seeded/<seed id>/meta.json from the harvest result (harvest.json written by tools/harvest_seed.sh).
import json,sys
sid,pid,rnd,needs=sys.argv[1:5]
h=json.load(open(f'/verif/seeded/{sid}/harvest.json'))
m={"seed":sid,"breaks_property":pid,"needs_to_manifest":needs,
   "independently_confirmed":{"repository_suite_with_patch":h["suite_with_patch"],"demo_with_patch":h["demo_with_patch"],"demo_without_patch":h["demo_without_patch"]},
   "how_confirmed":"tools/harvest_seed.sh (fresh scratch worktree of /repo HEAD; suite with patch; TestSeedDemo with and without the patch), then tools/try_patch.sh patch.diff <check>",
   "checks_run":h.get("checks",""),
   "origin":f"round {rnd}: written by a sub-agent that was given only the property text, one-line descriptions of the earlier changes to avoid, and its own scratch worktree"}
json.dump(m,open(f'/verif/seeded/{sid}/meta.json','w'),indent=1,ensure_ascii=False)
print("meta ok",sid,m["independently_confirmed"])
