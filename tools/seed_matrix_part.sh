#!/bin/bash
# usage: tools/seed_matrix_part.sh <out.md> <seed id glob>...   (e.g. 'C*-g' 'C*-h')
# Like seed_matrix.sh for a subset of the seeds; writes the table to <out.md>.
cd "$(dirname "$0")/.."
OUT="$1"; shift
echo "| seed | property | check | exit | first violation signature |" > "$OUT"
echo "|---|---|---|---|---|" >> "$OUT"
for g in "$@"; do
 for d in seeded/$g/; do
  sid=$(basename $d); [ -f $d/patch.diff ] || continue
  pid=$(jq -r .breaks_property $d/meta.json)
  for chk in $pid $(cat $d/also.txt 2>/dev/null); do
    if [ "$chk" = "C07" ]; then export VERIF_C07_ONLY=S1,S2,S5,S9,S10,S11,S12; else unset VERIF_C07_ONLY; fi
    o=$(tools/try_patch.sh $d/patch.diff $chk 2>&1)
    code=$(echo "$o" | grep -o "CHECK $chk exit=[0-9]*" | grep -o "[0-9]*$")
    sig=$(echo "$o" | grep -m1 "^VIOLATION" | grep -o "sub=[^ ]* sig=[^ ]*" | cut -c1-120)
    [ -z "$code" ] && sig=$(echo "$o" | grep -m1 "PATCH-DOES-NOT-APPLY\|BUILD-FAILED")
    echo "| $sid | $pid | $chk | $code | $sig |" >> "$OUT"
    echo "$sid $chk exit=$code $sig"
  done
 done
done
