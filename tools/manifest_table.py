ENGINES = [
 {"name": "E1-words", "path": "internal/core/words.go", "serves_properties": ["C01","C03","C04","C05","C06","C08","C09","C10","C11","C12","C15","C17","C19"], "kind_free_text": "exhaustive enumeration of all token words up to length N, sink contexts and edit neighbourhoods, executed on the implementation"},
]
NOT_YET = {}
add("C05", "model_checking", "bounded-exhaustive input enumeration (all token words ≤N, all 1-edit neighbours of spec examples) with a per-node tree invariant",
    "Every word of at most N tokens over five Markdown-significant alphabets, and every document at edit distance ≤1 from the spec examples, is parsed by the real parser under several configurations and every node of every resulting tree is checked against the structural, kind and position invariants. The space inside the bound is covered completely, not sampled.",
    "Trusted: the invariant checker internal/astcheck (own code). Not covered: inputs outside the alphabets/bounds.", "DESIGN.md §3 C05", "E1-words")
