#!/bin/bash
# usage: tools/try_patch.sh <patch.diff> [--suite] <ID> [<ID>...]
# Applies the patch to a scratch worktree of /repo (outside /repo and /verif), optionally runs the repository's own
# test suite there, runs the quick checks of the given properties against it, then removes the worktree and its build output.
set -u
P=$(readlink -f "$1"); shift
VD=$(cd "$(dirname "$0")/.." && pwd)
SUITE=0; if [ "${1:-}" = "--suite" ]; then SUITE=1; shift; fi
export GOFLAGS=-mod=mod GOPROXY=off GOSUMDB=off GOTOOLCHAIN=local
W=$(mktemp -d /tmp/vmut.XXXXXX)
git -C /repo worktree add -q --detach "$W/r" HEAD || exit 3
cleanup() { git -C /repo worktree remove --force "$W/r" 2>/dev/null; rm -rf "$W"; rm -f "$VD"/.work/*"$(echo -n "$W/r" | md5sum | cut -c1-10)"*; }
trap cleanup EXIT
if ! git -C "$W/r" apply "$P"; then echo "PATCH-DOES-NOT-APPLY"; exit 3; fi
if [ $SUITE = 1 ]; then
  if (cd "$W/r" && go test -vet=off -count=1 ./... >"$W/suite.log" 2>&1); then echo "SUITE: pass"; else echo "SUITE: FAIL"; tail -20 "$W/suite.log"; fi
fi
rc=0
for id in "$@"; do
  out=$(cd "$VD" && VERIF_REPO="$W/r" VERIF_REPLAY_DIR="$W/replays" VERIF_NO_EVIDENCE=1 VERIF_TIER="${VERIF_TIER:-quick}" ./run.sh "$id" 2>&1)
  code=$?
  echo "$out" | grep -E "^VIOLATION|^KNOWN|BUILD-FAILED" | cut -c1-${CUT:-400} | head -${HEAD:-3}
  echo "CHECK $id exit=$code $(echo "$out" | tail -1 | cut -c1-160)"
  [ $code -ne 0 ] && rc=1
done
exit $rc
