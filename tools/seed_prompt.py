#!/usr/bin/env python3
# usage: tools/seed_prompt.py <property id> <round letter>
# Creates a scratch worktree of /repo HEAD at /tmp/seed/<id>-<letter> and prints the prompt for a fresh sub-agent that is to
# write a property-breaking change there. The prompt contains only the text of the property and one-line descriptions of the
# earlier seeded changes (so that the new one differs) - nothing about the checks in /verif.
import json, sys, subprocess, os, glob
pid, letter = sys.argv[1], sys.argv[2]
d = f"/tmp/seed/{pid}-{letter}"
if not os.path.exists(d):
    os.makedirs("/tmp/seed", exist_ok=True)
    subprocess.check_call(["git", "-C", "/repo", "worktree", "add", "-q", "--detach", d, "HEAD"])
prop = [json.loads(l) for l in open("/verif/properties.jsonl") if json.loads(l)["id"] == pid][0]
earlier = []
for m in sorted(glob.glob(f"/verif/seeded/{pid}-*/meta.json")):
    j = json.load(open(m))
    earlier.append("- " + j.get("needs_to_manifest", "").strip())
print(f"""You are working in a scratch git worktree of the Go library yuin/goldmark (a CommonMark Markdown parser and HTML renderer) at {d}. Work ONLY inside {d}; do not read or write anything under /verif or /repo, and do not look for other copies of this code. There is no network: run `export GOFLAGS=-mod=mod GOPROXY=off GOSUMDB=off GOTOOLCHAIN=local` at the start of every shell command.

This is a robustness study of a verification harness that you cannot see. The library is supposed to satisfy this semantic property:

  {prop['title']}

  {prop['statement']}

Your task: make a realistic change to the library's NON-test source files - the kind of plausible optimisation, refactoring, caching, clean-up or slip a maintainer could commit - that BREAKS this property, such that
 1. the code still compiles and `go test -vet=off -count=1 ./...` (run in {d}) still passes completely, and
 2. the breakage needs something specific in order to show: a fault at a particular point, a multi-step sequence of operations or history, an unusual input shape or size, a rarely used option or entry point, two cooperating sites that each look fine alone, or - only if the property itself speaks about concurrent use - a particular interleaving of goroutines. The breakage must be a violation of THIS property as stated, observable through the public API in single-goroutine use unless the property is about concurrency. It must NOT be something that ordinary use would expose at once, and it should not be findable by trying a handful of short obvious inputs.

Also write a demonstration: one NEW test file named seed_demo_test.go in the directory of the package it tests (untracked; do not edit existing test files) with a test function whose name starts with TestSeedDemo that FAILS with your change and PASSES on the unchanged code. Verify both directions yourself (do NOT use `git stash` - the stash is shared with other worktrees; use `git diff > /tmp/seed/<name>.patch; git apply -R /tmp/seed/<name>.patch; ...; git apply /tmp/seed/<name>.patch` with a file name of your own). If the demonstration needs the race detector, say so in the report and write the test so that `go test -race -run TestSeedDemo` shows it (and mention the word race in the report).

Do not commit anything. Leave the source change as uncommitted modifications to tracked files and the demo as an untracked file. Write {d}/SEED_REPORT.md (untracked) with: the change; why it looks innocent; exactly what is needed for the breakage to manifest; what you ran to verify (suite passes with the change; demo fails with it and passes without it).

Earlier changes already made by others against this same property are listed below (one line each: what each needed in order to manifest). Yours must live in a DIFFERENT part of the code and need a DIFFERENT kind of trigger from all of them:
{chr(10).join(earlier) if earlier else '- (none yet)'}

When you are done, reply with one short paragraph: the file(s) and function(s) changed, the trigger, and the results of your three verification runs.""")
