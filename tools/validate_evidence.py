#!/usr/bin/env python3
# usage: python3-vt tools/validate_evidence.py   - validates MANIFEST.json and every evidence/<id>.json against the schemas
import json, glob, sys
import jsonschema
ms = json.load(open('/root/.vp/MANIFEST.schema.json')); es = json.load(open('/root/.vp/EVIDENCE.schema.json'))
m = json.load(open('/verif/MANIFEST.json')); jsonschema.validate(m, ms)
bad = 0
for c in m['checks']:
    p = c['evidence_file']
    try:
        e = json.load(open(p)); jsonschema.validate(e, es)
        print(c['property_id'], 'ok', e['tier'], 'wall=%.0fs' % e['wall_s'], 'violations=%s' % e.get('violations'), 'exhaustive=%s' % e['coverage'].get('exhaustive'))
    except Exception as x:
        bad += 1; print(c['property_id'], 'INVALID', str(x)[:200])
sys.exit(1 if bad else 0)
