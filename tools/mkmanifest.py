#!/usr/bin/env python3
"""Regenerates MANIFEST.json from the table below and validates it against the schema."""
import json, sys, os
HERE = os.path.dirname(os.path.dirname(os.path.abspath(__file__)))
ALL = ["C%02d" % i for i in range(1, 21)]
# id -> (category, technique, text, level_note, design_ref, engine)
CHECKS = {}
def add(id, category, technique, text, note, ref, engine):
    CHECKS[id] = dict(category=category, technique=technique, text=text, note=note, ref=ref, engine=engine)

exec(open(os.path.join(HERE, "tools", "manifest_table.py")).read())

checks = []
for id in ALL:
    if id not in CHECKS:
        continue
    c = CHECKS[id]
    checks.append({
        "property_id": id,
        "quick_cmd": "./run.sh %s quick" % id,
        "thorough_cmd": "./run.sh %s thorough" % id,
        "evidence_file": "/verif/evidence/%s.json" % id,
        "replay_cmd_template": "./run.sh %s quick --replay {path}" % id,
        "engine": c["engine"],
        "level_claimed": {"category": c["category"], "text": c["text"], "design_ref": c["ref"]},
        "level_note": c["note"],
        "technique": c["technique"],
    })
na = [{"property_id": id, "reason": NOT_YET.get(id, "check not built yet in this session; planned in DESIGN.md")} for id in ALL if id not in CHECKS]
m = {
    "version": 1,
    "setup_cmd": "./setup.sh",
    "notes": "Bounded-exhaustive model checking executed on the implementation; see DESIGN.md. Every check is ./run.sh <ID> <tier>; it rebuilds bin/vcheck against /repo's working tree.",
    "hooks": {
        "guard": "verif",
        "enable": "no hook is committed in /repo: instrumentation for C07 is generated from the current working tree at check time (cmd/vinstr) and injected with go build -overlay; all other checks link /repo unmodified through a replace directive",
        "baseline_off_cmd": "cd /repo && GOFLAGS=-mod=mod GOPROXY=off GOSUMDB=off GOTOOLCHAIN=local go test -vet=off -count=1 ./...",
        "source_commits": [],
        "add_only": True,
    },
    "engines": ENGINES,
    "checks": checks,
    "not_applicable": na,
}
json.dump(m, open(os.path.join(HERE, "MANIFEST.json"), "w"), indent=1)
open(os.path.join(HERE, "MANIFEST.json"), "a").write("\n")
try:
    import jsonschema
    jsonschema.validate(m, json.load(open("/root/.vp/MANIFEST.schema.json")))
    print("MANIFEST.json valid; claimed:", [c["property_id"] for c in checks])
except ImportError:
    print("jsonschema not importable; not validated")
