#!/bin/bash
# Pre-builds the framework offline so that quick checks only pay an incremental build.
set -e
cd "$(dirname "$0")"
export GOFLAGS=-mod=mod GOPROXY=off GOSUMDB=off GOTOOLCHAIN=local
mkdir -p bin evidence replays
go build -o bin/vcheck ./cmd/vcheck
echo "setup ok"
