#!/bin/bash
# Pre-builds the framework offline so that quick checks only pay an incremental build.
set -e
cd "$(dirname "$0")"
export GOFLAGS=-mod=mod GOPROXY=off GOSUMDB=off GOTOOLCHAIN=local
mkdir -p bin evidence replays
go build -o bin/vcheck ./cmd/vcheck
# warm the build cache for the instrumented explorer and the -race companion binary of C07 (scratch output is deleted)
VERIF_DIR="$PWD" VERIF_REPO_DIR="${VERIF_REPO:-/repo}" ./bin/vcheck C07 --worker prebuild
echo "setup ok"
