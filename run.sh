#!/bin/bash
# usage: run.sh <ID> [quick|thorough] [extra vcheck args...]
# Builds bin/vcheck against /repo's current working tree (or $VERIF_REPO) and runs one check.
set -u
cd "$(dirname "$0")"
export GOFLAGS=-mod=mod GOPROXY=off GOSUMDB=off GOTOOLCHAIN=local
ID="${1:?property id}"; shift
TIER="${1:-${VERIF_TIER:-quick}}"; [ $# -gt 0 ] && shift
REPO="${VERIF_REPO:-/repo}"
BIN=bin/vcheck
MODARGS=()
if [ "$REPO" != "/repo" ]; then
  key=$(echo -n "$REPO" | md5sum | cut -c1-10)
  mkdir -p .work
  sed "s#=> /repo#=> $REPO#" go.mod > .work/go.$key.mod
  cp go.sum .work/go.$key.sum
  MODARGS=(-modfile=.work/go.$key.mod)
  BIN=.work/vcheck.$key
fi
if ! out=$(go build "${MODARGS[@]}" -o "$BIN" ./cmd/vcheck 2>&1); then
  echo "BUILD-FAILED (tree does not compile; no verdict)"; echo "$out" | head -40
  exit 2
fi
export VERIF_REPO_DIR="$REPO" VERIF_DIR="$PWD" VERIF_MODARGS="${MODARGS[*]:-}"
exec "$BIN" "$ID" --tier "$TIER" "$@"
