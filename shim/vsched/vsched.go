// Package vsched is the cooperative scheduler injected into an instrumented copy of goldmark (see cmd/vinstr).
// Managed goroutines ("threads") run strictly one at a time; every instrumented statement calls P(), where the
// explorer may take the baton away. sync.Once / sync.Mutex / sync.RWMutex are replaced by the types below, whose
// blocking operations are scheduling operations. Outside Run everything degrades to plain sequential behaviour.
package vsched

import (
	"fmt"
	"runtime/debug"
)

// Decision is one departure from the default policy "keep running the current thread; when it ends or blocks run
// the lowest-numbered enabled thread".
type Decision struct {
	Step   int  `json:"step"`   // preemption: global step counter value at which it applies
	Free   bool `json:"free"`   // true: applies where the running thread ended or blocked (no preemption)
	FP     int  `json:"fp"`     // free decision: ordinal of the free point it applies to
	Thread int  `json:"thread"` // thread to run next
}

// Segment is a maximal stretch of steps with the same running thread and the same set of enabled threads.
type Segment struct {
	Start   int    `json:"start"`
	End     int    `json:"end"` // exclusive
	Thread  int    `json:"thread"`
	Enabled uint32 `json:"enabled"` // bit i: thread i could run
	Decs    int    `json:"decs"`    // decisions consumed before this segment began
	Cont    bool   `json:"cont"`    // same thread as the previous segment (only the enabled set changed)
}

// FreePoint is a point where the running thread ended or blocked and another one had to be chosen.
type FreePoint struct {
	Step    int    `json:"step"`
	Enabled uint32 `json:"enabled"`
	Chosen  int    `json:"chosen"`
	Decs    int    `json:"decs"` // decisions consumed before this point
}

// Trace is what one execution did.
type Trace struct {
	Steps      int
	Segments   []Segment
	FreePoints []FreePoint
	Deadlock   bool
	Horizon    bool
	BadSched   string
	Panics     []any // per thread, recovered panic value (nil if none)
	Stacks     []string
	ThreadStep []int
}

type thread struct {
	id      int
	wake    chan struct{}
	done    bool
	blocked interface{}
	steps   int
}

var (
	active    bool
	funcGran  bool
	cur       *thread
	ths       []*thread
	gstep     int
	horizon   int
	decs      []Decision
	di        int
	nextStep  int // Step of decs[di] or -1
	aborting  bool
	tr        *Trace
	segStart  int
	mainWake  chan struct{}
	abortSent = &struct{ s string }{"vsched abort"}
)

func enabledMask() uint32 {
	var m uint32
	for _, t := range ths {
		if !t.done && t.blocked == nil {
			m |= 1 << uint(t.id)
		}
	}
	return m
}

func closeSegment() {
	if gstep > segStart {
		tr.Segments = append(tr.Segments, Segment{Start: segStart, End: gstep, Thread: cur.id, Enabled: segMask, Decs: segDecs, Cont: segCont})
	}
	segStart = gstep
}

var (
	segMask uint32
	segDecs int
	segCont bool
)

func openSegment() {
	segStart = gstep
	segMask = enabledMask()
	segDecs = di
	segCont = false
}

func loadNext() {
	if di < len(decs) && !decs[di].Free {
		nextStep = decs[di].Step
	} else {
		nextStep = -1
	}
}

// Coverage: C(id) is the first statement of every instrumented function. While CovOn is set, it records which managed
// threads executed the function (bit i = thread i; bit 7 = outside Run).
var (
	CovOn bool
	Cov   = make([]uint8, 1<<14)
)

// C records that function id was entered.
func C(id int) {
	if !CovOn {
		return
	}
	if active && cur != nil {
		Cov[id] |= 1 << uint(cur.id&3)
	} else {
		Cov[id] |= 1 << 7
	}
}

// P is called before every instrumented statement.
func P() {
	if !active || funcGran {
		return
	}
	point()
}

// PF is called before the first statement of every instrumented function.
func PF() {
	if !active {
		return
	}
	point()
}

func point() {
	for {
		if aborting {
			panic(abortSent)
		}
		if gstep != nextStep {
			break
		}
		d := decs[di]
		di++
		loadNext()
		t := target(d)
		if t == cur {
			break
		}
		closeSegment()
		me := cur
		cur = t
		openSegment()
		t.wake <- struct{}{}
		<-me.wake
		// resumed: a further decision may apply at this very step
	}
	gstep++
	cur.steps++
	if gstep > horizon {
		tr.Horizon = true
		abort()
	}
}

func target(d Decision) *thread {
	if d.Thread < 0 || d.Thread >= len(ths) {
		tr.BadSched = fmt.Sprintf("decision %+v names no thread", d)
		abort()
	}
	t := ths[d.Thread]
	if t.done || t.blocked != nil {
		tr.BadSched = fmt.Sprintf("decision %+v names a thread that is not enabled at step %d (nondeterministic replay?)", d, gstep)
		abort()
	}
	return t
}

func abort() {
	aborting = true
	panic(abortSent)
}

// yield is called by the running thread when it ended (done) or blocked; it hands the baton to another thread
// and, if the caller merely blocked, waits until it is scheduled again.
func yield(ended bool) {
	closeSegment()
	me := cur
	var next *thread
	mask := enabledMask()
	if aborting {
		// wind down: wake every thread that is still parked so that it can unwind
		for _, t := range ths {
			if !t.done && t != me {
				next = t
				break
			}
		}
		if next == nil {
			mainWake <- struct{}{}
			return
		}
		cur = next
		next.wake <- struct{}{}
		if !ended {
			<-me.wake
			panic(abortSent)
		}
		return
	}
	if mask == 0 {
		all := true
		for _, t := range ths {
			if !t.done {
				all = false
			}
		}
		if !all {
			tr.Deadlock = true
			aborting = true
			yieldAbort(me, ended)
			return
		}
		mainWake <- struct{}{}
		return
	}
	before := di
	if di < len(decs) && decs[di].Free && decs[di].FP == len(tr.FreePoints) {
		d := decs[di]
		di++
		loadNext()
		next = target(d)
	} else {
		for _, t := range ths {
			if !t.done && t.blocked == nil {
				next = t
				break
			}
		}
	}
	tr.FreePoints = append(tr.FreePoints, FreePoint{Step: gstep, Enabled: mask, Chosen: next.id, Decs: before})
	cur = next
	openSegment()
	if next == me {
		return
	}
	next.wake <- struct{}{}
	if !ended {
		<-me.wake
		if aborting {
			panic(abortSent)
		}
	}
}

func yieldAbort(me *thread, ended bool) {
	for _, t := range ths {
		if !t.done && t != me {
			cur = t
			t.wake <- struct{}{}
			if !ended {
				<-me.wake
				panic(abortSent)
			}
			return
		}
	}
	if !ended {
		panic(abortSent)
	}
	mainWake <- struct{}{}
}

// block parks the running thread on obj until unblock(obj) is called.
func block(obj interface{}) {
	cur.blocked = obj
	yield(false)
}

func unblock(obj interface{}) {
	changed := false
	for _, t := range ths {
		if t.blocked == obj {
			t.blocked = nil
			changed = true
		}
	}
	if changed && active {
		closeSegment()
		openSegment()
		segCont = true
	}
}

// Options of one execution.
type Options struct {
	Horizon  int
	FuncGran bool // scheduling points only at function entries
}

// Run executes the bodies as managed threads under the given decisions and returns the trace.
func Run(bodies []func(), decisions []Decision, o Options) *Trace {
	if active {
		panic("vsched: nested Run")
	}
	n := len(bodies)
	tr = &Trace{Panics: make([]any, n), Stacks: make([]string, n), ThreadStep: make([]int, n)}
	ths = make([]*thread, n)
	for i := range ths {
		ths[i] = &thread{id: i, wake: make(chan struct{}, 1)}
	}
	gstep, di, decs, aborting = 0, 0, decisions, false
	horizon, funcGran = o.Horizon, o.FuncGran
	if horizon <= 0 {
		horizon = 1 << 40
	}
	loadNext()
	mainWake = make(chan struct{}, 1)
	for i := range ths {
		t := ths[i]
		body := bodies[i]
		go func() {
			<-t.wake
			defer func() {
				if p := recover(); p != nil && p != interface{}(abortSent) {
					tr.Panics[t.id] = p
					tr.Stacks[t.id] = string(debug.Stack())
				}
				t.done = true
				yield(true)
			}()
			if aborting {
				return
			}
			body()
		}()
	}
	// initial choice: thread 0 unless the first decision is a free one at step 0
	first := ths[0]
	mask := enabledMask()
	if len(decs) > 0 && decs[0].Free && decs[0].FP == 0 {
		first = ths[decs[0].Thread]
		di++
		loadNext()
	}
	cur = first
	tr.FreePoints = append(tr.FreePoints, FreePoint{Step: 0, Enabled: mask, Chosen: first.id, Decs: 0})
	active = true
	openSegment()
	first.wake <- struct{}{}
	<-mainWake
	active = false
	tr.Steps = gstep
	for i, t := range ths {
		tr.ThreadStep[i] = t.steps
	}
	if di < len(decs) && tr.BadSched == "" && !tr.Deadlock && !tr.Horizon {
		tr.BadSched = fmt.Sprintf("decision %+v was never reached (execution has %d steps)", decs[di], gstep)
	}
	out := tr
	ths, cur = nil, nil
	return out
}

// ---- replacements for package sync

// Once replaces sync.Once.
type Once struct {
	state int // 0 new, 1 running, 2 done
}

// Do mirrors sync.Once.Do; a second caller blocks until the first has finished.
func (o *Once) Do(f func()) {
	if !active {
		if o.state == 2 {
			return
		}
		if o.state == 1 {
			panic("vsched: Once.Do re-entered outside Run")
		}
		o.state = 1
		defer func() { o.state = 2 }()
		f()
		return
	}
	for o.state == 1 {
		block(o)
	}
	if o.state == 2 {
		return
	}
	o.state = 1
	defer func() {
		o.state = 2
		unblock(o)
	}()
	f()
}

// Mutex replaces sync.Mutex.
type Mutex struct {
	held bool
}

// Lock blocks while the mutex is held.
func (m *Mutex) Lock() {
	for m.held && active {
		block(m)
	}
	m.held = true
}

// TryLock mirrors sync.Mutex.TryLock.
func (m *Mutex) TryLock() bool {
	if m.held {
		return false
	}
	m.held = true
	return true
}

// Unlock releases the mutex.
func (m *Mutex) Unlock() {
	if !m.held {
		panic("vsched: unlock of unlocked mutex")
	}
	m.held = false
	unblock(m)
}

// RWMutex replaces sync.RWMutex.
type RWMutex struct {
	writer  bool
	readers int
}

func (m *RWMutex) Lock() {
	for (m.writer || m.readers > 0) && active {
		block(m)
	}
	m.writer = true
}
func (m *RWMutex) Unlock() {
	m.writer = false
	unblock(m)
}
func (m *RWMutex) RLock() {
	for m.writer && active {
		block(m)
	}
	m.readers++
}
func (m *RWMutex) RUnlock() {
	m.readers--
	unblock(m)
}

// Pool replaces sync.Pool with the most adversarial behaviour its contract permits: everything that is Put is
// retained and handed to the next Get of ANY goroutine (last in, first out). A buffer that is still in use after it
// was Put is thereby really shared.
type Pool struct {
	New   func() any
	items []any
}

func (p *Pool) Get() any {
	if n := len(p.items); n > 0 {
		x := p.items[n-1]
		p.items = p.items[:n-1]
		return x
	}
	if p.New != nil {
		return p.New()
	}
	return nil
}

func (p *Pool) Put(x any) { p.items = append(p.items, x) }
