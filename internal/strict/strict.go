// Package strict is an independent, deliberately rigid tokenizer for the HTML that goldmark emits in
// safe mode. It imports nothing from goldmark. Anything outside the grammar
//
//	doc   := (text | charref | start | end | comment)*
//	start := '<' name (SP+ attr '="' value '"')* (SP* '/')? '>'
//	end   := '</' name '>'
//
// is rejected with a reason code.
package strict

import (
	"bytes"
	"encoding/xml"
	"fmt"
	"strings"
	"unicode/utf8"
)

// Kind of token.
type Kind int

const (
	Text Kind = iota
	Start
	End
	Comment
)

// Attr is one attribute (value still escaped, exactly as written).
type Attr struct{ Name, Value string }

// Token is one lexical element of the output.
type Token struct {
	Kind      Kind
	Name      string // tag name
	Attrs     []Attr
	SelfClose bool
	Text      string // text content (raw, with character references) or comment body
	Pos       int
}

// Attr returns the value of the named attribute.
func (t *Token) Attr(name string) (string, bool) {
	for _, a := range t.Attrs {
		if a.Name == name {
			return a.Value, true
		}
	}
	return "", false
}

// Error is a rejection with a stable reason code.
type Error struct {
	Code string
	Pos  int
	Msg  string
}

func (e *Error) Error() string { return fmt.Sprintf("%s at %d: %s", e.Code, e.Pos, e.Msg) }

func isNameStart(c byte) bool { return c >= 'a' && c <= 'z' || c >= 'A' && c <= 'Z' }
func isTagChar(c byte) bool   { return isNameStart(c) || c >= '0' && c <= '9' }
func isAttrStart(c byte) bool { return isNameStart(c) || c == '_' || c == ':' }
func isAttrChar(c byte) bool {
	return isAttrStart(c) || c >= '0' && c <= '9' || c == '.' || c == '-'
}

// charRef checks that b[i] == '&' starts a well-formed character reference and returns its length.
func charRef(b []byte, i int) int {
	j := i + 1
	if j < len(b) && b[j] == '#' {
		j++
		if j < len(b) && (b[j] == 'x' || b[j] == 'X') {
			j++
			k := j
			for j < len(b) && (b[j] >= '0' && b[j] <= '9' || b[j] >= 'a' && b[j] <= 'f' || b[j] >= 'A' && b[j] <= 'F') {
				j++
			}
			if j == k || j-k > 6 {
				return 0
			}
		} else {
			k := j
			for j < len(b) && b[j] >= '0' && b[j] <= '9' {
				j++
			}
			if j == k || j-k > 7 {
				return 0
			}
		}
	} else {
		k := j
		for j < len(b) && isTagChar(b[j]) {
			j++
		}
		if j == k || j-k > 32 {
			return 0
		}
	}
	if j < len(b) && b[j] == ';' {
		return j + 1 - i
	}
	return 0
}

// Tokenize parses out strictly.
func Tokenize(out []byte) ([]Token, *Error) {
	var toks []Token
	i := 0
	textStart := 0
	flush := func(end int) {
		if end > textStart {
			toks = append(toks, Token{Kind: Text, Text: string(out[textStart:end]), Pos: textStart})
		}
	}
	for i < len(out) {
		c := out[i]
		switch {
		case c == '&':
			n := charRef(out, i)
			if n == 0 {
				return toks, &Error{"bare-amp", i, "'&' does not start a character reference: " + clip(out[i:])}
			}
			i += n
		case c == '<':
			flush(i)
			if bytes.HasPrefix(out[i:], []byte("<!--")) {
				e := bytes.Index(out[i+4:], []byte("-->"))
				if e < 0 {
					return toks, &Error{"unclosed-comment", i, clip(out[i:])}
				}
				toks = append(toks, Token{Kind: Comment, Text: string(out[i+4 : i+4+e]), Pos: i})
				i += 4 + e + 3
				textStart = i
				continue
			}
			t, n, err := tag(out, i)
			if err != nil {
				return toks, err
			}
			toks = append(toks, t)
			i += n
			textStart = i
		default:
			i++
		}
	}
	flush(i)
	return toks, nil
}

func clip(b []byte) string {
	if len(b) > 40 {
		b = b[:40]
	}
	return fmt.Sprintf("%q", b)
}

func tag(b []byte, i int) (Token, int, *Error) {
	st := i
	i++
	t := Token{Kind: Start, Pos: st}
	if i < len(b) && b[i] == '/' {
		t.Kind = End
		i++
	}
	k := i
	if i >= len(b) || !isNameStart(b[i]) {
		return t, 0, &Error{"raw-lt", st, "'<' not followed by a tag name: " + clip(b[st:])}
	}
	for i < len(b) && isTagChar(b[i]) {
		i++
	}
	t.Name = string(b[k:i])
	if t.Kind == End {
		if i < len(b) && b[i] == '>' {
			return t, i + 1 - st, nil
		}
		return t, 0, &Error{"bad-end-tag", st, clip(b[st:])}
	}
	for {
		sp := 0
		for i < len(b) && (b[i] == ' ' || b[i] == '\n') {
			i++
			sp++
		}
		if i >= len(b) {
			return t, 0, &Error{"unclosed-tag", st, clip(b[st:])}
		}
		if b[i] == '>' {
			return t, i + 1 - st, nil
		}
		if b[i] == '/' {
			if i+1 < len(b) && b[i+1] == '>' {
				t.SelfClose = true
				return t, i + 2 - st, nil
			}
			return t, 0, &Error{"bad-tag-syntax", i, clip(b[st:])}
		}
		if sp == 0 {
			return t, 0, &Error{"bad-tag-syntax", i, "attribute not preceded by a space: " + clip(b[st:])}
		}
		if !isAttrStart(b[i]) {
			return t, 0, &Error{"bad-attr-name", i, clip(b[st:])}
		}
		k = i
		for i < len(b) && isAttrChar(b[i]) {
			i++
		}
		name := string(b[k:i])
		if i+1 >= len(b) || b[i] != '=' || b[i+1] != '"' {
			return t, 0, &Error{"bad-attr-syntax", i, "attribute " + name + " is not followed by =\": " + clip(b[st:])}
		}
		i += 2
		k = i
		for i < len(b) && b[i] != '"' {
			if b[i] == '&' {
				n := charRef(b, i)
				if n == 0 {
					return t, 0, &Error{"bare-amp-in-attr", i, "in value of " + name + ": " + clip(b[i:])}
				}
				i += n
				continue
			}
			i++
		}
		if i >= len(b) {
			return t, 0, &Error{"unclosed-attr", k, clip(b[st:])}
		}
		for _, a := range t.Attrs {
			if a.Name == name {
				return t, 0, &Error{"dup-attr", k, "attribute " + name + " written twice"}
			}
		}
		t.Attrs = append(t.Attrs, Attr{name, string(b[k:i])})
		i++
	}
}

// Void elements of goldmark's vocabulary.
var Void = map[string]bool{"br": true, "hr": true, "img": true, "input": true}

// CheckNesting verifies that elements are properly nested and closed.
func CheckNesting(toks []Token) *Error {
	var stack []string
	for i := range toks {
		t := &toks[i]
		switch t.Kind {
		case Start:
			if Void[t.Name] {
				continue
			}
			if t.SelfClose {
				return &Error{"selfclose-nonvoid", t.Pos, "<" + t.Name + " />"}
			}
			stack = append(stack, t.Name)
		case End:
			if Void[t.Name] {
				return &Error{"end-of-void", t.Pos, "</" + t.Name + ">"}
			}
			if len(stack) == 0 || stack[len(stack)-1] != t.Name {
				top := "(none)"
				if len(stack) > 0 {
					top = stack[len(stack)-1]
				}
				return &Error{"misnested", t.Pos, "</" + t.Name + "> while <" + top + "> is open"}
			}
			stack = stack[:len(stack)-1]
		}
	}
	if len(stack) > 0 {
		return &Error{"unclosed-element", len(toks), "<" + strings.Join(stack, "><") + "> left open"}
	}
	return nil
}

// xmlChar reports whether r is an XML 1.0 Char.
func xmlChar(r rune) bool {
	return r == 0x9 || r == 0xA || r == 0xD || r >= 0x20 && r <= 0xD7FF || r >= 0xE000 && r <= 0xFFFD || r >= 0x10000 && r <= 0x10FFFF
}

// XMLRepresentable reports whether every character of out (and every numeric reference) is an XML Char.
func XMLRepresentable(out []byte) bool {
	if !utf8.Valid(out) {
		return false
	}
	for _, r := range string(out) {
		if !xmlChar(r) {
			return false
		}
	}
	return true
}

// CheckXML parses out (wrapped in a root element) with encoding/xml in strict mode.
func CheckXML(out []byte) error {
	d := xml.NewDecoder(io2(out))
	d.Strict = true
	d.Entity = xml.HTMLEntity
	for {
		_, err := d.Token()
		if err != nil {
			if err.Error() == "EOF" {
				return nil
			}
			return err
		}
	}
}

func io2(out []byte) *bytes.Reader {
	b := make([]byte, 0, len(out)+16)
	b = append(b, "<root>"...)
	b = append(b, out...)
	b = append(b, "</root>"...)
	return bytes.NewReader(b)
}
