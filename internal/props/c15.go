package props

import (
	"encoding/base64"
	"errors"
	"fmt"
	"os"
	"os/exec"
	"strconv"
	"strings"
	"sync/atomic"
	"unicode/utf8"

	"verif/internal/core"
	"verif/internal/strict"
)

func init() {
	register(&Check{ID: "C15", QuickS: 200, ThorS: 1800, Run: runC15, Replay: replayC15, Workers: c15Worker})
}

// c15Worker: vcheck C15 --worker ids <cfg> <base64 document>. Converts the one document on a new instance in a new
// process (nothing has been converted before) and prints the heading ids, one quoted string per line.
func c15Worker(args []string) int {
	if len(args) < 3 || args[0] != "ids" {
		return 2
	}
	doc, err := base64.StdEncoding.DecodeString(args[2])
	if err != nil {
		return 2
	}
	cv := core.NewConv(core.MustCfg(args[1]))
	out, cerr, pan := cv.Convert(doc)
	if cerr != nil || pan != nil {
		fmt.Println("FAIL")
		return 0
	}
	ids, _, lerr := headingIDs(out)
	if lerr != nil {
		fmt.Println("FAIL")
		return 0
	}
	for _, id := range ids {
		fmt.Println(strconv.Quote(id))
	}
	return 0
}

var c15PristineCalls atomic.Int64

// c15Pristine returns the ids the document gets in a process that has converted nothing else.
func c15Pristine(cfg core.Cfg, doc []byte) (ids []string, ok bool) {
	exe, _ := os.Executable()
	out, err := exec.Command(exe, "C15", "--worker", "ids", cfg.String(), base64.StdEncoding.EncodeToString(doc)).Output()
	if err != nil || strings.HasPrefix(string(out), "FAIL") {
		return nil, false
	}
	for _, ln := range strings.Split(strings.TrimSpace(string(out)), "\n") {
		if ln == "" {
			continue
		}
		id, err := strconv.Unquote(ln)
		if err != nil {
			return nil, false
		}
		ids = append(ids, id)
	}
	return ids, true
}

// c15ModelMismatch is called when the ids differ from the reference model's prediction. The statement does not fix the
// id algorithm, only that ids depend on the document alone; so the verdict comes from a differential partner: the same
// document converted alone in a new process. Different ids there = history dependence (violation); same ids = the
// implementation's algorithm is not the model's (not a violation; counted and reported in the evidence as model drift).
func c15ModelMismatch(s *core.Sub, cfg core.Cfg, doc []byte, ids, want []string, tag string) {
	if c15PristineCalls.Add(1) > 200 {
		s.Count("model-mismatch-not-confirmed(cap of 200 pristine-process runs reached)")
		return
	}
	alone, ok := c15Pristine(cfg, doc)
	if !ok {
		s.Count("model-mismatch-pristine-run-failed")
		return
	}
	if strings.Join(alone, "\x00") != strings.Join(ids, "\x00") {
		s.Violate("ids-depend-on-history"+tag, cfg.String(), doc, nil, fmt.Sprintf("ids %q here, but %q when the same document is converted alone in a new process (reference model %q)", ids, alone, want), strings.Join(alone, " "), strings.Join(ids, " "))
		return
	}
	s.Count("model-drift: ids differ from the reference model but are the same in a pristine process (not a violation)")
}

var c15Texts = []string{"a", "A", "a-1", "a 1", "a-1-1", "", "あ", "!", "1", "-", "_", "heading", "heading-1", "a_1", "Heading 1", "a !", "! a"}

type c15Head struct {
	text string
	form int // 0 ATX, 1 Setext, 2 ATX in quote, 3 ATX in list item
}

func (h c15Head) md() string {
	switch h.form {
	case 1:
		return h.text + "\n==="
	case 2:
		return strings.TrimRight("> # "+h.text, " ")
	case 3:
		return strings.TrimRight("- # "+h.text, " ")
	}
	return strings.TrimRight("# "+h.text, " ")
}

// c15Refuse is a destination that accepts nothing.
type c15Refuse struct{}

func (c15Refuse) Write(p []byte) (int, error) { return 0, errors.New("refused") }

// slugModel is the reference: ASCII alnum lower-cased, space/-/_ -> '-', everything else dropped; empty -> "heading".
func slugModel(t string) string {
	t = strings.Trim(t, " \t")
	var b strings.Builder
	for _, r := range t {
		switch {
		case r >= 'a' && r <= 'z' || r >= '0' && r <= '9':
			b.WriteRune(r)
		case r >= 'A' && r <= 'Z':
			b.WriteRune(r + 'a' - 'A')
		case r == ' ' || r == '-' || r == '_' || r == '\t':
			b.WriteByte('-')
		}
	}
	if b.Len() == 0 {
		return "heading"
	}
	return b.String()
}

// idsModel: a set plus "first free numeric suffix".
func idsModel(texts []string) []string {
	used := map[string]bool{}
	var out []string
	for _, t := range texts {
		s := slugModel(t)
		if used[s] {
			for i := 1; ; i++ {
				c := fmt.Sprintf("%s-%d", s, i)
				if !used[c] {
					s = c
					break
				}
			}
		}
		used[s] = true
		out = append(out, s)
	}
	return out
}

func headingIDs(out []byte) (ids []string, problems []string, lexErr *strict.Error) {
	toks, err := strict.Tokenize(out)
	if err != nil {
		return nil, nil, err
	}
	seen := map[string]bool{}
	for i := range toks {
		t := &toks[i]
		if t.Kind != strict.Start || len(t.Name) != 2 || t.Name[0] != 'h' || t.Name[1] < '1' || t.Name[1] > '6' {
			continue
		}
		id, ok := t.Attr("id")
		switch {
		case !ok:
			problems = append(problems, "heading-without-id")
		case id == "":
			problems = append(problems, "empty-id")
		case seen[id]:
			problems = append(problems, "duplicate-id")
		}
		seen[id] = true
		ids = append(ids, id)
	}
	return ids, problems, nil
}

func c15Generic(s *core.Sub, cv *core.Conv, doc []byte) uint64 {
	out, ok := mustConvert(s, cv, doc)
	if !ok {
		return 0
	}
	s.Evals.Add(1)
	ids, probs, lerr := headingIDs(out)
	if lerr != nil {
		s.Violate("lex:"+lerr.Code, cv.Cfg.String(), doc, nil, lerr.Error(), "", string(out))
		return 0
	}
	for _, p := range probs {
		s.Violate(p, cv.Cfg.String(), doc, nil, fmt.Sprintf("heading ids %q", ids), "every heading has a distinct non-empty id", string(out))
	}
	if len(ids) >= 2 {
		return core.Hash([]byte(strings.Join(ids, ",")))
	}
	return 0
}

func runC15(r *core.Run) {
	var heads []c15Head
	for _, t := range c15Texts {
		for f := 0; f < 4; f++ {
			if f == 1 && (t == "" || t == "-" || t == "_" || t == "1") {
				continue // not a Setext heading by construction ("-", "_" are markers; "" has no text; "1" is fine but kept out for symmetry)
			}
			heads = append(heads, c15Head{t, f})
		}
	}
	toks := make([]string, len(heads))
	for i := range heads {
		toks[i] = string(rune('A' + i)) // placeholder token; the word is decoded below
		_ = toks[i]
	}
	n := core.Pick(r, 3, 4)
	for _, cn := range []string{"core+autoid", "gfm+autoid", "all+autoid+xhtml"} {
		cfg := core.MustCfg(cn)
		idx := make([]string, len(heads))
		for i := range idx {
			idx[i] = string([]byte{byte(i)})
		}
		nn := n
		wordsSub(r, "structured/"+cn, fmt.Sprintf("every sequence of ≤%d headings from %d (text,form) pairs (texts %q × {ATX, Setext, ATX in quote, ATX in list item}), joined by blank lines, converted on a long-lived instance under %s, each conversion preceded by a conversion on a second attribute-enabled instance of headings carrying the predicted ids explicitly and by a conversion of the same document on the same instance into a writer that refuses every byte; ids from the tokenized output must be non-empty and pairwise distinct; where they differ from the reference model (slug + first free numeric suffix) the same document is converted alone in a new process and must get the same ids there (ids depend on the document only); distinct = id-sequence digest", nn, len(heads), c15Texts, cn),
			idx, nn, func(s *core.Sub, w int) func([]byte) uint64 {
				cv := core.NewConv(cfg)
				// history clause across instances: a second, attribute-enabled instance converts, right before each
				// document, headings whose EXPLICIT ids are exactly the ids the model predicts for that document
				noiseCfg := cfg
				noiseCfg.Attr = true
				noise := core.NewConv(noiseCfg)
				var b, nb strings.Builder
				return func(word []byte) uint64 {
					b.Reset()
					texts := make([]string, len(word))
					for i, c := range word {
						texts[i] = heads[c].text
					}
					nb.Reset()
					for i, id := range idsModel(texts) {
						fmt.Fprintf(&nb, "# n%d {#%s}\n\n", i, id)
					}
					_, _, _ = noise.Convert([]byte(nb.String()))
					for i, c := range word {
						if i > 0 {
							b.WriteString("\n\n")
						}
						b.WriteString(heads[c].md())
						texts[i] = heads[c].text
					}
					doc := []byte(b.String())
					// history clause, failed conversions included: the same document is first converted on the same instance
					// into a writer that refuses every byte
					_ = cv.MD.Convert(doc, c15Refuse{})
					out, ok := mustConvert(s, cv, doc)
					if !ok {
						return 0
					}
					s.Evals.Add(1)
					ids, probs, lerr := headingIDs(out)
					if lerr != nil {
						s.Violate("lex:"+lerr.Code, cfg.String(), doc, nil, lerr.Error(), "", string(out))
						return 0
					}
					for _, p := range probs {
						s.Violate(p, cfg.String(), doc, nil, fmt.Sprintf("heading ids %q", ids), "every heading has a distinct non-empty id", string(out))
					}
					want := idsModel(texts)
					if strings.Join(ids, "\x00") != strings.Join(want, "\x00") {
						c15ModelMismatch(s, cfg, doc, ids, want, "")
					}
					return core.Hash([]byte(strings.Join(ids, ",")))
				}
			})
	}
	// long headings: every slug length up to a bound (limits, truncation, buffers), with a repeat and a near-repeat
	{
		maxL := core.Pick(r, 400, 1500)
		units := []string{"ab ", "a", "- ", "Ab-1 ", "あ "}
		for _, cn := range []string{"core+autoid", "all+autoid+xhtml"} {
			cfg := core.MustCfg(cn)
			s := r.Sub("long-headings/"+cn, fmt.Sprintf("for each unit in %q and EVERY length L = 1..%d: the document '# T', '# T', '## T minus its last byte', 'T' + Setext underline, where T is the first L bytes of the repeated unit: ids non-empty, pairwise distinct and equal to the reference model's, under %s", units, maxL, cn))
			core.ForEachIndex(len(units), core.Workers(), func(w int) func(int) {
				cv := core.NewConv(cfg)
				return func(ui int) {
					rep := strings.Repeat(units[ui], maxL/len(units[ui])+2)
					for l := 1; l <= maxL; l++ {
						t := strings.TrimSpace(rep[:l])
						for !utf8.ValidString(t) && len(t) > 0 {
							t = t[:len(t)-1]
						}
						if t == "" || strings.Trim(t, "-= ") == "" && false {
							continue
						}
						t2 := strings.TrimSpace(t[:len(t)-1])
						for !utf8.ValidString(t2) && len(t2) > 0 {
							t2 = t2[:len(t2)-1]
						}
						texts := []string{t, t, t2}
						doc := "# " + t + "\n\n# " + t + "\n\n## " + t2 + "\n"
						out, ok := mustConvert(s, cv, []byte(doc))
						s.Evals.Add(1)
						if !ok {
							continue
						}
						ids, probs, lerr := headingIDs(out)
						if lerr != nil {
							s.Violate("lex:"+lerr.Code, cfg.String(), []byte(doc), nil, lerr.Error(), "", core.Clip(string(out), 400))
							continue
						}
						for _, p := range probs {
							s.Violate(p+":long-heading", cfg.String(), []byte(doc), nil, fmt.Sprintf("L=%d heading ids %q", l, ids), "every heading has a distinct non-empty id", "")
						}
						if want := idsModel(texts); len(ids) == 3 && strings.Join(ids, "\x00") != strings.Join(want, "\x00") && strings.Trim(t, "- ") != "" && strings.Trim(t2, "- ") != "" {
							c15ModelMismatch(s, cfg, []byte(doc), ids, want, ":long-heading")
						}
					}
					s.Distinct(core.Hash([]byte(units[ui])))
					s.AddSample(fmt.Sprintf("unit %q, L=1..%d", units[ui], maxL))
				}
			}, r.Expired)
			s.States.Store(s.Evals.Load())
			s.Transitions.Store(s.Evals.Load())
			s.Bound = fmt.Sprintf("%d units × L=1..%d", len(units), maxL)
			s.Done()
		}
	}
	// many headings: the size of the id table grows past every small threshold. (a) n copies of one heading for every n;
	// (b) k distinct headings followed by a repeat of the j-th, for every j ≤ k
	{
		maxN := core.Pick(r, 150, 400)
		maxK := core.Pick(r, 40, 80)
		units := []string{"# a", "a\n===", "## a-1", "# あ", "#", "> # a", "- # a"}
		for _, cn := range []string{"core+autoid", "all+autoid+xhtml"} {
			cfg := core.MustCfg(cn)
			s := r.Sub("many-headings/"+cn, fmt.Sprintf("(a) for each unit in %q and EVERY n = 1..%d: the unit repeated n times (blank lines between); (b) for EVERY k = 1..%d and j = 1..k: headings '# h1' … '# hk' followed by a second '# hj' (also with the repeat written in Setext form): every heading has a non-empty id, all ids pairwise distinct, under %s", units, maxN, maxK, cn))
			type job struct {
				unit string
				k    int
			}
			var jobs []job
			for _, u := range units {
				jobs = append(jobs, job{unit: u})
			}
			for k := 1; k <= maxK; k++ {
				jobs = append(jobs, job{k: k})
			}
			core.ForEachIndex(len(jobs), core.Workers(), func(w int) func(int) {
				cv := core.NewConv(cfg)
				return func(i int) {
					j := jobs[i]
					if j.unit != "" {
						var b strings.Builder
						for n := 1; n <= maxN; n++ {
							b.WriteString(j.unit)
							b.WriteString("\n\n")
							if h := c15Generic(s, cv, []byte(b.String())); h != 0 {
								s.Distinct(h)
							}
						}
						s.AddSample(fmt.Sprintf("(%q LF LF)^n, n=1..%d", j.unit, maxN))
						return
					}
					var b strings.Builder
					for x := 1; x <= j.k; x++ {
						fmt.Fprintf(&b, "# h%d\n\n", x)
					}
					for x := 1; x <= j.k; x++ {
						for form := 0; form < 2; form++ {
							doc := b.String() + fmt.Sprintf("# h%d\n", x)
							if form == 1 {
								doc = b.String() + fmt.Sprintf("h%d\n---\n", x)
							}
							if h := c15Generic(s, cv, []byte(doc)); h != 0 {
								s.Distinct(h)
							}
						}
					}
				}
			}, r.Expired)
			s.Bound = fmt.Sprintf("%d units × n≤%d; k≤%d × j≤k × 2 forms", len(units), maxN, maxK)
			s.States.Store(s.Evals.Load())
			s.Transitions.Store(s.Evals.Load())
			s.Done()
		}
	}
	// unstructured: any document over block tokens
	alpha := core.Union(core.ABlock, []string{"A", "\t", "_", "[", "]"})
	for _, cn := range []string{"core+autoid", "all+autoid"} {
		cfg := core.MustCfg(cn)
		wordsSub(r, "words/"+cn, "any word: every h1–h6 of the tokenized output carries a non-empty id, all ids pairwise distinct (long-lived instance); non-trivial = ≥2 headings, distinct = id-sequence digest",
			alpha, core.Pick(r, 5, 6), func(s *core.Sub, w int) func([]byte) uint64 {
				cv := core.NewConv(cfg)
				return func(word []byte) uint64 { return c15Generic(s, cv, word) }
			})
	}
	nbhdSub(r, "nbhd-spec/all+autoid", core.MustCfg("all+autoid"), func(s *core.Sub, cv *core.Conv, w []byte) { c15Generic(s, cv, w) })
	// headings nested in n containers for EVERY n: all containers end in the same step as the heading (end of input, blank
	// line, a less indented line)
	{
		var docs [][]byte
		for n := 1; n <= core.Pick(r, 120, 400); n++ {
			q, l := strings.Repeat("> ", n), strings.Repeat("- ", n)
			docs = append(docs, []byte(q+"# deep"), []byte(q+"# deep\n\n# top\n"), []byte(q+"deep\n"+q+"===\n\ntop\n---\n"), []byte(l+"# deep\n# top\n"), []byte(l+"# deep\n\n"+l+"# deep\n"))
		}
		for _, cn := range []string{"core+autoid", "all+autoid+xhtml"} {
			docsSub(r, "depth-ladder/"+cn, "a heading inside n block quotes / n nested list items for EVERY n, closed together with all its containers by the end of input, a blank line or an unindented line, under "+cn+": every heading carries a non-empty id, ids pairwise distinct",
				core.MustCfg(cn), docs, func(s *core.Sub, cv *core.Conv, w []byte) { c15Generic(s, cv, w) })
		}
	}
	// automatic ids switched on through every channel the API offers: added to the parser after construction, handed to the
	// heading parsers' own constructors in a hand-built block parser list, through the generic name/value parser option
	for _, cn := range []string{"core+autoid+via=2", "core+autoid+via=5", "all+autoid+via=5", "core+autoid+via=6", "all+autoid+xhtml+via=6", "core+autoid+via=7", "all+autoid+attr+xhtml+via=7"} {
		cfg := core.MustCfg(cn)
		wordsSub(r, "option-channels/"+cn, "automatic heading ids enabled through the channel "+core.Channels[cfg.Via]+": every h1–h6 of the tokenized output carries a non-empty id, all ids pairwise distinct; non-trivial = ≥2 headings, distinct = id-sequence digest",
			alpha, core.Pick(r, 4, 5), func(s *core.Sub, w int) func([]byte) uint64 {
				cv := core.NewConv(cfg)
				return func(word []byte) uint64 { return c15Generic(s, cv, word) }
			})
		docsSub(r, "option-channels-headings/"+cn, "every ATX/Setext heading shape in every container, ids enabled through the channel "+core.Channels[cfg.Via]+": same clauses",
			cfg, HeadingShapeDocs(), func(s *core.Sub, cv *core.Conv, w []byte) { c15Generic(s, cv, w) })
	}
}

func replayC15(r *core.Run, v *core.Violation) {
	cfg, err := core.ParseCfg(v.Cfg)
	if err != nil {
		fmt.Println(err)
		return
	}
	s := r.Sub(v.Sub, "replay of one document (generic clauses)")
	c15Generic(s, core.NewConv(cfg), v.Input())
	s.Done()
}
