package props

import (
	"bytes"
	"encoding/json"
	"fmt"
	"os"
	"path/filepath"
	"sort"
	"strings"
	"sync"

	"github.com/yuin/goldmark/ast"
	"github.com/yuin/goldmark/parser"
	"github.com/yuin/goldmark/text"

	"verif/internal/core"
)

// treeDigest hashes the shape of a tree (kinds in pre-order with depth) and counts distinct kinds.
func treeDigest(doc ast.Node) (uint64, int) {
	var h uint64 = 1469598103934665603
	var kinds uint64
	nk := 0
	var rec func(n ast.Node, d int)
	rec = func(n ast.Node, d int) {
		k := uint64(n.Kind())
		if k < 64 && kinds&(1<<k) == 0 {
			kinds |= 1 << k
			nk++
		}
		h = core.HashMix(h, k*31+uint64(d))
		for c := n.FirstChild(); c != nil; c = c.NextSibling() {
			rec(c, d+1)
		}
	}
	rec(doc, 0)
	return h, nk
}

// SpecExample is one entry of _test/spec.json.
type SpecExample struct {
	Markdown string `json:"markdown"`
	HTML     string `json:"html"`
	Example  int    `json:"example"`
	Section  string `json:"section"`
}

var (
	specOnce sync.Once
	specEx   []SpecExample
)

// Spec loads the official examples from the repository under test.
func Spec(r *core.Run) []SpecExample {
	specOnce.Do(func() {
		b, err := os.ReadFile(filepath.Join(r.Repo, "_test", "spec.json"))
		if err != nil {
			fmt.Println("cannot read spec.json:", err)
			return
		}
		_ = json.Unmarshal(b, &specEx)
	})
	return specEx
}

var (
	corpusOnce sync.Once
	corpusDocs []SpecExample
)

// Corpus loads the Markdown sources of the repository's own test-case files (_test/extra.txt, _test/options.txt and
// extension/_test/*.txt in testutil's format). Only the sources are used, as seeds: they are the one place where the
// extension syntaxes (tables, footnotes, definition lists, task lists, linkified URLs, typographic punctuation) and the
// attribute syntax occur in realistic combinations. Example numbers are 10000·file + case index.
func Corpus(r *core.Run) []SpecExample {
	corpusOnce.Do(func() {
		var files []string
		for _, g := range []string{"_test/*.txt", "extension/_test/*.txt"} {
			m, _ := filepath.Glob(filepath.Join(r.Repo, g))
			sort.Strings(m)
			files = append(files, m...)
		}
		const sep, end = "//- - - - - - - - -//", "//= = = = = = = = = = = = = = = = = = = = = = = =//"
		for fi, f := range files {
			b, err := os.ReadFile(f)
			if err != nil {
				continue
			}
			k := 0
			for _, cs := range strings.Split(string(b), end) {
				parts := strings.Split(cs, sep)
				if len(parts) < 3 {
					continue
				}
				md := strings.TrimPrefix(parts[1], "\n")
				md = strings.TrimPrefix(md, "\r\n")
				k++
				corpusDocs = append(corpusDocs, SpecExample{Markdown: md, Example: 10000*(fi+1) + k, Section: filepath.Base(f)})
			}
		}
	})
	return corpusDocs
}

// Seeds returns the spec examples followed by the repository's test-case sources.
func Seeds(r *core.Run) []SpecExample {
	return append(append([]SpecExample{}, Spec(r)...), Corpus(r)...)
}

// EditTokens is the token set used for edit neighbourhoods of the spec examples.
var EditTokens = []string{"a", " ", "\n", ">", "-", "#", "`", "*", "_", "[", "]", "(", ")", "<", "\\", "&", "|", ":", "~", "\t", "1.", "=", "+", "!", "\"", "[^1]", "\x00", "\x80", "あ", "\r", "{", "}", "."}

// Neighbours calls f for src itself and for every document at edit distance 1 from src:
// delete one byte, insert a token at every position, replace one byte by a token.
func Neighbours(src []byte, toks []string, f func([]byte)) int {
	n := 0
	buf := make([]byte, 0, len(src)+16)
	f(src)
	n++
	for i := 0; i < len(src); i++ {
		buf = append(buf[:0], src[:i]...)
		buf = append(buf, src[i+1:]...)
		f(buf)
		n++
	}
	for i := 0; i <= len(src); i++ {
		for _, t := range toks {
			buf = append(buf[:0], src[:i]...)
			buf = append(buf, t...)
			buf = append(buf, src[i:]...)
			f(buf)
			n++
			if i < len(src) {
				buf = append(buf[:0], src[:i]...)
				buf = append(buf, t...)
				buf = append(buf, src[i+1:]...)
				f(buf)
				n++
			}
		}
	}
	return n
}

// nbhdSub runs fn on the distance-≤1 neighbourhood of every spec example (quick: examples ≤ 60 bytes
// and a reduced token set; thorough: all examples, full token set).
func nbhdSub(r *core.Run, name string, cfg core.Cfg, fn func(s *core.Sub, cv *core.Conv, w []byte)) {
	ex := Seeds(r)
	toks := EditTokens
	maxLen := 1 << 30
	if r.Quick() {
		toks = EditTokens[:12]
		maxLen = 60
	}
	var sel []SpecExample
	for _, e := range ex {
		if len(e.Markdown) <= maxLen || e.Example >= 10000 && len(e.Markdown) <= 2*maxLen {
			sel = append(sel, e)
		}
	}
	s := r.Sub(name, fmt.Sprintf("every document at edit distance ≤1 (delete byte / insert token / replace byte by token, %d tokens) from each of %d seeds (spec examples of length ≤ %d and sources of the repository's own test-case files of twice that) under %s; distinct = output/AST digest", len(toks), len(sel), maxLen, cfg))
	s.Bound = fmt.Sprintf("d=1 seeds=%d tokens=%d", len(sel), len(toks))
	complete := core.ForEachIndex(len(sel), core.Workers(), func(w int) func(int) {
		cv := core.NewConv(cfg)
		return func(i int) {
			src := []byte(sel[i].Markdown)
			n := Neighbours(src, toks, func(d []byte) {
				fn(s, cv, d)
				s.Distinct(core.Hash(d))
			})
			s.Evals.Add(int64(n))
			if i%97 == 0 {
				s.AddSample(fmt.Sprintf("spec example %d and its %d neighbours", sel[i].Example, n-1))
			}
		}
	}, r.Expired)
	if !complete {
		s.Incomplete("internal deadline reached before all seeds ran")
	}
	s.States.Store(s.Evals.Load())
	s.Transitions.Store(s.Evals.Load())
	s.Done()
}

// wordsSub runs one exhaustive word enumeration as a sub-check. mk is called once per worker and returns the
// per-word function; that function returns the digest to record as distinct (0 = trivial case, not recorded).
func wordsSub(r *core.Run, name, rule string, toks []string, n int, mk func(s *core.Sub, w int) func(word []byte) uint64) *core.Sub {
	s := r.Sub(name, fmt.Sprintf("every word of ≤%d tokens over %q; %s", n, toks, rule))
	s.Planned = core.CountWords(len(toks), n)
	s.Bound = fmt.Sprintf("N=%d |A|=%d", n, len(toks))
	var visited int64
	visited, complete := core.ForEachWord(toks, n, core.Workers(), func(w int) func([]byte) {
		f := mk(s, w)
		var cnt int64
		return func(word []byte) {
			h := f(word)
			if h != 0 {
				s.Distinct(h)
			}
			cnt++
			if w == 0 {
				s.MaybeSample(cnt, func() any { return core.Q(word) })
			}
		}
	}, r.Expired)
	s.States.Store(visited)
	if s.Evals.Load() == 0 {
		s.Evals.Store(visited)
	}
	if s.Evals.Load() >= visited && complete {
		s.Planned = 0 // the word count was met; Evals may count several conversions per word
	}
	if !complete {
		s.Incomplete("internal deadline reached before all shards ran")
	}
	s.Transitions.Store(s.Evals.Load())
	s.Done()
	return s
}

// mustConvert converts or records a violation; ok=false when conversion failed.
func mustConvert(s *core.Sub, cv *core.Conv, doc []byte) (out []byte, ok bool) {
	out, err, pan := cv.Convert(doc)
	if pan != nil || err != nil {
		s.Violate("convert-failed:"+cv.Site, cv.Cfg.String(), doc, nil, fmt.Sprint("panic=", pan, " err=", err), "", "")
		return nil, false
	}
	return out, true
}

// nest wrappers: inline containers that may enclose each other, block containers, and atoms. NestDocs enumerates every
// document blockWrapper(inlineWrapper_1(...inlineWrapper_k(atom)...)) with k ≤ depth.
var (
	nestInline = []string{"[§](u)", "![§](u)", "*§*", "**§**", "_§_", "[§][r]", "~~§~~", "<b>§</b>"}
	nestBlock  = []string{"§", "> §", "- §", "# §", "|§|\n|-|\n", "x[^1]\n\n[^1]: §", "§\n===\n"}
	nestAtoms  = []string{"a", "[b](c)", "<http://x.y>", "![i](j)", "`k`", "[^1]", "www.a.bc", "a\\\nb", "a\nb", "a\n", "\na", "a  \n"}
)

// NestDocs calls f with every nesting document up to the given inline depth; it returns how many there are.
func NestDocs(depth int, f func(doc []byte)) int {
	n := 0
	var rec func(inner string, d int)
	emit := func(inl string) {
		for _, bw := range nestBlock {
			doc := strings.Replace(bw, "§", inl, 1)
			if strings.Contains(inl, "[r]") {
				doc += "\n\n[r]: /r\n"
			}
			if strings.Contains(inl, "[^1]") && !strings.Contains(bw, "[^1]:") {
				doc += "\n\n[^1]: fn\n"
			}
			f([]byte(doc))
			n++
		}
	}
	rec = func(inner string, d int) {
		emit(inner)
		if d == depth {
			return
		}
		for _, w := range nestInline {
			rec(strings.Replace(w, "§", inner, 1), d+1)
		}
	}
	for _, a := range nestAtoms {
		rec(a, 0)
	}
	return n
}

// nestSub runs fn on every nesting document under cfg as one sub-check.
func nestSub(r *core.Run, name string, cfg core.Cfg, depth int, fn func(s *core.Sub, cv *core.Conv, w []byte)) {
	var docs [][]byte
	NestDocs(depth, func(d []byte) { docs = append(docs, append([]byte{}, d...)) })
	s := r.Sub(name, fmt.Sprintf("every document B(W1(...Wk(atom))) with k ≤ %d inline wrappers Wi from %q, block wrapper B from %q and atom from %q (reference and footnote definitions appended when used), under %s", depth, nestInline, nestBlock, nestAtoms, cfg))
	s.Planned = int64(len(docs))
	s.Bound = fmt.Sprintf("inline nesting depth ≤%d: %d documents", depth, len(docs))
	complete := core.ForEachIndex(len(docs), core.Workers(), func(w int) func(int) {
		cv := core.NewConv(cfg)
		return func(i int) {
			fn(s, cv, docs[i])
			s.Evals.Add(1)
			s.Distinct(core.Hash(docs[i]))
			if i%(len(docs)/5+1) == 0 {
				s.AddSample(core.Q(docs[i]))
			}
		}
	}, r.Expired)
	if !complete {
		s.Incomplete("internal deadline reached")
	}
	s.States.Store(s.Evals.Load())
	s.Transitions.Store(s.Evals.Load())
	s.Done()
}

// attribute syntax: words over tokens of the {...} attribute language placed behind ATX and Setext headings
var attrToks = []string{"a", "1", " ", "=", "\"", "'", "#", ".", "id", "class", "[", "]", ",", "\\", "-", "true", "}", "{", ":"}
var attrTemplates = []string{"# h {§}", "# h {§", "h {§}\n===", "## h {#i §}"}

// attrSub runs fn on every attribute document: each template with § replaced by every word of ≤n tokens over attrToks.
func attrSub(r *core.Run, name string, cfg core.Cfg, n int, fn func(s *core.Sub, cv *core.Conv, w []byte)) {
	parts := make([][]string, len(attrTemplates))
	for i, t := range attrTemplates {
		parts[i] = strings.SplitN(t, "§", 2)
	}
	wordsSub(r, name, fmt.Sprintf("each word placed in the attribute block of %q under %s (needs parser.WithAttribute); distinct = word digest", attrTemplates, cfg),
		attrToks, n, func(s *core.Sub, w int) func([]byte) uint64 {
			cv := core.NewConv(cfg)
			var doc []byte
			return func(word []byte) uint64 {
				for _, p := range parts {
					doc = append(append(append(doc[:0], p[0]...), word...), p[1]...)
					fn(s, cv, doc)
					s.Evals.Add(1)
				}
				return core.Hash(word)
			}
		})
}

// replication families: a short unit repeated n times for EVERY n up to a bound, so that any internal buffer or
// threshold (128 line statistics, a 4096-byte write buffer, ...) is crossed at every possible phase
var replUnits = []string{"a", "- a", "1. a", "> a", "# a", "a\nb", "- a\n  b", "> - a", "- > a", "***", "`a`", "[a](b)", "<b>x</b>", "```\na\n```", "a  ", "- a\n\n  b", "  - a", "* a\n* b"}

// ReplDocs calls f(unit, sep, n, doc) for doc = (unit sep)^n, every unit, sep in {"\n","\n\n"}, n = 1..maxN.
func ReplDocs(maxN int, f func(unit, sep string, n int, doc []byte)) int {
	cnt := 0
	for _, u := range replUnits {
		for _, sep := range []string{"\n", "\n\n"} {
			var doc []byte
			for n := 1; n <= maxN; n++ {
				doc = append(append(doc, u...), sep...)
				f(u, sep, n, doc)
				cnt++
			}
		}
	}
	return cnt
}

// sizeLadder returns, in increasing order, every n in 1..dense followed by 2^k-1, 2^k, 2^k+1 up to limit.
func sizeLadder(dense, limit int) []int {
	var out []int
	for n := 1; n <= dense; n++ {
		out = append(out, n)
	}
	for p := 1; p <= limit; p <<= 1 {
		for _, n := range []int{p - 1, p, p + 1} {
			if n > dense && n <= limit+1 {
				out = append(out, n)
			}
		}
	}
	return out
}

// replSub runs fn on every replication document under cfg as one sub-check.
func replSub(r *core.Run, name string, cfg core.Cfg, maxN int, fn func(s *core.Sub, cv *core.Conv, w []byte)) {
	type job struct{ u, sep string }
	var jobs []job
	for _, u := range replUnits {
		for _, sep := range []string{"\n", "\n\n"} {
			jobs = append(jobs, job{u, sep})
		}
	}
	s := r.Sub(name, fmt.Sprintf("every document (unit sep)^n for unit in %q, sep in {LF, LF LF} and EVERY n from 1 to %d (so that any internal threshold is crossed at every phase), then n = 2^k-1, 2^k, 2^k+1 up to %d, under %s", replUnits, maxN, core.Pick(r, 1024, 16384), cfg))
	s.Planned = int64(len(jobs) * len(sizeLadder(maxN, core.Pick(r, 1024, 16384))))
	s.Bound = fmt.Sprintf("%d units × 2 separators × n=1..%d", len(replUnits), maxN)
	complete := core.ForEachIndex(len(jobs), core.Workers(), func(w int) func(int) {
		cv := core.NewConv(cfg)
		return func(i int) {
			var doc []byte
			have := 0
			for _, n := range sizeLadder(maxN, core.Pick(r, 1024, 16384)) {
				for ; have < n; have++ {
					doc = append(append(doc, jobs[i].u...), jobs[i].sep...)
				}
				fn(s, cv, doc)
				s.Evals.Add(1)
			}
			s.Distinct(core.Hash(doc))
			if i%7 == 0 {
				s.AddSample(fmt.Sprintf("(%q %q)^n, n=1..%d", jobs[i].u, jobs[i].sep, maxN))
			}
		}
	}, r.Expired)
	if !complete {
		s.Incomplete("internal deadline reached")
	}
	s.States.Store(s.Evals.Load())
	s.Transitions.Store(s.Evals.Load())
	s.Done()
}

// length families: every sink context with a payload of EVERY length from 1 to maxLen (thresholds such as the 999-byte
// link label limit, 4096/8192-byte buffers and 1000-character scans are crossed at every phase)
func lengthSub(r *core.Run, name string, cfg core.Cfg, maxLen int, fn func(s *core.Sub, cv *core.Conv, w []byte)) {
	var ctxs []sinkCtx
	for _, c := range sinkContexts {
		live := !c.attr || cfg.Attr
		if live {
			ctxs = append(ctxs, c)
		}
	}
	units := []string{"a", "ab ", "[", "*a", "\\", "&", "\"", "é", "<", "ab\n", "a b c d e f g h i j k l m n o p q r s t u v w x y z a b c d e f g h i j k l m n o p q r s t u v w x y z\n"}
	s := r.Sub(name, fmt.Sprintf("each of %d sink templates with § replaced by the first L bytes of the endless repetition of each unit in %q, for EVERY L from 1 to %d and then L = 2^k-1, 2^k, 2^k+1 up to %d, under %s", len(ctxs), units, maxLen, core.Pick(r, 8192, 70000), cfg))
	s.Planned = int64(len(ctxs) * len(units) * len(sizeLadder(maxLen, core.Pick(r, 8192, 70000))))
	s.Bound = fmt.Sprintf("%d templates × %d units × L=1..%d", len(ctxs), len(units), maxLen)
	complete := core.ForEachIndex(len(ctxs)*len(units), core.Workers(), func(w int) func(int) {
		cv := core.NewConv(cfg)
		return func(i int) {
			c, u := ctxs[i/len(units)], units[i%len(units)]
			parts := strings.Split(c.tmpl, "§")
			top := core.Pick(r, 8192, 70000)
			payload := strings.Repeat(u, (top+2)/len(u)+1)
			var doc []byte
			for _, l := range sizeLadder(maxLen, top) {
				doc = doc[:0]
				for k, p := range parts {
					if k > 0 {
						doc = append(doc, payload[:l]...)
					}
					doc = append(doc, p...)
				}
				fn(s, cv, doc)
				s.Evals.Add(1)
			}
			s.Distinct(core.Hash([]byte(c.name + u)))
			if i%23 == 0 {
				s.AddSample(fmt.Sprintf("template %q unit %q L=1..%d", c.tmpl, u, maxLen))
			}
		}
	}, r.Expired)
	if !complete {
		s.Incomplete("internal deadline reached")
	}
	s.States.Store(s.Evals.Load())
	s.Transitions.Store(s.Evals.Load())
	s.Done()
}

// attribute entries: sequences of complete attribute entries (the second and later entries meet the merge paths)
var attrEntries = []string{".b", "#i", "class=a", "class=\"c d\"", "class='e'", "id=x", "k=v", "k=1", "k=true", "k=[1,\"x\"]", "data-x=y", ".f", "title=t", "id=\"y z\"", "class=g", "tabindex=12345", "data-n=7", "data-f=1.5", "lang=en"}

func attrEntrySub(r *core.Run, name string, cfg core.Cfg, n int, fn func(s *core.Sub, cv *core.Conv, w []byte)) {
	toks := make([]string, len(attrEntries))
	for i, e := range attrEntries {
		toks[i] = e + " "
	}
	tmpls := [][2]string{{"# Title {", "}"}, {"Title {", "}\n==="}, {"## Title text that is long enough {", "}"}}
	wordsSub(r, name, fmt.Sprintf("every sequence of ≤%d attribute entries from %q, separated by spaces, in the attribute block of an ATX and a Setext heading under %s", n, attrEntries, cfg),
		toks, n, func(s *core.Sub, w int) func([]byte) uint64 {
			cv := core.NewConv(cfg)
			var doc []byte
			return func(word []byte) uint64 {
				for _, t := range tmpls {
					doc = append(append(append(doc[:0], t[0]...), bytes.TrimRight(word, " ")...), t[1]...)
					fn(s, cv, doc)
					s.Evals.Add(1)
				}
				return core.Hash(word)
			}
		})
}

// hashTwins returns, for a name, the strings of the same length that have the same multiplicative-by-33 string hash
// (djb2 and friends): raising one byte by d and lowering the next by 33·d keeps h = h*33 + c unchanged. Only twins made of
// attribute-name characters are returned.
func hashTwins(name string) []string {
	ok := func(c int) bool {
		return c >= 'a' && c <= 'z' || c >= 'A' && c <= 'Z' || c >= '0' && c <= '9' || c == '-' || c == '_'
	}
	var out []string
	for i := 0; i+1 < len(name); i++ {
		for _, d := range []int{1, -1, 2, -2} {
			a, b := int(name[i])+d, int(name[i+1])-33*d
			if ok(a) && ok(b) && !(i == 0 && !(a >= 'a' && a <= 'z' || a >= 'A' && a <= 'Z')) {
				t := []byte(name)
				t[i], t[i+1] = byte(a), byte(b)
				out = append(out, string(t))
			}
		}
	}
	return out
}

// TableDocs returns small two-column tables with every ordered pair of cell contents of the table check (plain, empty,
// escaped pipe, code spans holding one and two escaped pipes, padded, emphasised), every alignment of the first column
// and every placement (top level, after a paragraph line, in a block quote, in a list item).
func TableDocs() [][]byte {
	var tdocs [][]byte
	for _, c1 := range c17Contents {
		for _, c2 := range c17Contents {
			for _, al := range c17Aligns {
				for placement := 0; placement < 4; placement++ {
					tdocs = append(tdocs, []byte(place([]string{"|h|" + c1 + "|", "|" + al.delim + "|-|", "|" + c2 + "|" + c1 + "|", c2 + "|"}, placement)))
				}
			}
		}
	}
	return tdocs
}

// docsSub runs fn on each document of a fixed list as one sub-check.
func docsSub(r *core.Run, name, rule string, cfg core.Cfg, docs [][]byte, fn func(s *core.Sub, cv *core.Conv, w []byte)) {
	s := r.Sub(name, rule)
	s.Planned = int64(len(docs))
	s.Bound = fmt.Sprintf("%d documents", len(docs))
	complete := core.ForEachIndex(len(docs), core.Workers(), func(w int) func(int) {
		cv := core.NewConv(cfg)
		return func(i int) {
			fn(s, cv, docs[i])
			s.Evals.Add(1)
			s.Distinct(core.Hash(docs[i]))
			if i%(len(docs)/5+1) == 0 {
				s.AddSample(core.Q(docs[i]))
			}
		}
	}, r.Expired)
	if !complete {
		s.Incomplete("internal deadline reached")
	}
	s.States.Store(s.Evals.Load())
	s.Transitions.Store(s.Evals.Load())
	s.Done()
}

// TabCodeDocs returns documents in which code lines inside containers are indented with every mixture of spaces and tabs,
// including tabs that straddle the column where the container's content or the code's content begins (such lines carry
// virtual padding): container opener × ≤3 code lines, each spelled one of seven ways, directly or after a blank line.
func TabCodeDocs() [][]byte {
	openers := []string{"- foo\n", "1. foo\n", "> foo\n", "-   foo\n", "foo\n", "- > foo\n"}
	conts := []string{"", "", ">", "", "", "  >"} // what a continuation line of the container starts with
	lines := []string{"      a", "\t\tb", "\t  c", "  \t d", "\t\t\te", "        f", " \t\tg"}
	var out [][]byte
	for oi, op := range openers {
		var rec func(body string, d int)
		rec = func(body string, d int) {
			if d > 0 {
				out = append(out, []byte(op+conts[oi]+"\n"+body), []byte(op+body))
			}
			if d == 3 {
				return
			}
			for _, l := range lines {
				rec(body+conts[oi]+l+"\n", d+1)
			}
		}
		rec("", 0)
	}
	// fenced code: a fence indented by 0–3 columns behind each container marker, then content lines in the same mixtures,
	// with and without a final line ending and a closing fence
	markers := []struct{ first, cont string }{{"", ""}, {"> ", "> "}, {">", ">"}, {"- ", "  "}, {"1. ", "   "}, {">\t", ">\t"}, {"> > ", "> > "}, {"- > ", "  > "}}
	for _, m := range markers {
		for k := 0; k <= 3; k++ {
			for _, fence := range []string{"```", "~~~~"} {
				open := m.first + strings.Repeat(" ", k) + fence + "\n"
				for _, l1 := range append(append([]string{}, lines...), "x", " x", "") {
					for _, l2 := range []string{"", "\ty", "   z"} {
						body := m.cont + l1
						if l2 != "" {
							body += "\n" + m.cont + l2
						}
						out = append(out, []byte(open+body), []byte(open+body+"\n"), []byte(open+body+"\n"+m.cont+strings.Repeat(" ", k)+fence+"\n"))
					}
				}
			}
		}
	}
	return out
}

// corpusSub runs fn on every document of the structured corpus (c12StructuredDocs) accepted by keep (nil = all).
func corpusSub(r *core.Run, name string, cfg core.Cfg, keep func([]byte) bool, fn func(s *core.Sub, cv *core.Conv, w []byte)) {
	var docs [][]byte
	for _, d := range c12StructuredDocs(r.Quick()) {
		if keep == nil || keep(d) {
			docs = append(docs, d)
		}
	}
	docsSub(r, name, fmt.Sprintf("%d documents of %s under %s", len(docs), corpusRule, cfg), cfg, docs, fn)
}

const corpusRule = "the structured corpus (container chains of every depth with a tight or loose second item at one level, every byte value 0..255 alone and between letters in every sink template, inline atoms on a first / inner / last line and around hard breaks in every sink template, nesting documents, colliding heading sequences, footnote sequences, attribute blocks, replication families, leak-prone documents, printed model documents with tab/space indentation in every single-deviation spelling, small tables with every pair of cell contents, code lines under containers in every tab/space mixture, indexed families of n footnotes / reference links / table columns and rows / attributes / inline items for every n up to a bound, delimiters next to non-ASCII whitespace and punctuation, every ATX/Setext heading shape with closers and attribute blocks, every block construct in every container and extension slot, CR LF versions of the model, table, code, multi-line sink and multi-line nesting documents)"

// CountDocs returns indexed families whose size parameter n takes EVERY value 1..maxN: n footnotes (references then
// definitions, and the other way round; every second one referenced twice), n reference links with n definitions, tables of
// n columns and of n rows, a heading with n attributes / n classes, n emphasis runs, emphasis and bracket nesting of depth
// n, n links / code spans / autolinks / entities / raw tags / hard breaks in one paragraph, n definitions of one term and
// n terms, n task items, list nesting of depth n, quote nesting of depth n; and ONE item used n times (a footnote with n references, a
// definition used n times, n headings with one text). Any table, cache, stack or buffer that grows
// with the number of such items crosses each of its thresholds at some n.
func CountDocs(maxN int) [][]byte {
	var out [][]byte
	rep := func(n int, f func(i int) string) string {
		var b strings.Builder
		for i := 1; i <= n; i++ {
			b.WriteString(f(i))
		}
		return b.String()
	}
	for n := 1; n <= maxN; n++ {
		fnRefs := rep(n, func(i int) string {
			if i%2 == 0 {
				return fmt.Sprintf("x[^%d] y[^%d]\n", i, i)
			}
			return fmt.Sprintf("x[^%d]\n", i)
		})
		fnDefs := rep(n, func(i int) string { return fmt.Sprintf("[^%d]: note %d\n\n", i, i) })
		lrUses := rep(n, func(i int) string { return fmt.Sprintf("[r%d] [t][R%d] ", i, i) })
		lrDefs := rep(n, func(i int) string { return fmt.Sprintf("[r%d]: /u%d 't%d'\n", i, i, i) })
		deep := n
		if deep > 60 {
			deep = 60 // nesting deeper than this is the business of the nesting families of C01
		}
		out = append(out,
			[]byte(fnRefs+"\n"+fnDefs),
			[]byte(fnDefs+fnRefs),
			[]byte(lrUses+"\n\n"+lrDefs),
			[]byte(lrDefs+"\n"+lrUses+"\n"),
			[]byte("|"+rep(n, func(i int) string { return fmt.Sprintf("h%d|", i) })+"\n|"+rep(n, func(i int) string { return []string{"-|", ":-|", "-:|", ":-:|"}[i%4] })+"\n|"+rep(n, func(i int) string { return fmt.Sprintf("c%d|", i) })+"\n|x|\n"),
			[]byte("|a|b|\n|-|:-|\n"+rep(n, func(i int) string { return fmt.Sprintf("|r%d|`p\\|q`|\n", i) })),
			[]byte("# t {"+rep(n, func(i int) string { return fmt.Sprintf("a%d=v%d ", i, i) })+"}\n"),
			[]byte("# t {"+rep(n, func(i int) string { return fmt.Sprintf(".c%d ", i) })+"#i}\n"),
			[]byte(rep(n, func(i int) string { return fmt.Sprintf("*e%d* __s%d__ ", i, i) })+"\n"),
			[]byte(strings.Repeat("*", deep)+"a"+strings.Repeat("*", deep)+"\n"),
			[]byte(strings.Repeat("[", deep)+"a"+strings.Repeat("](u)", deep)+"\n"),
			[]byte(rep(n, func(i int) string { return fmt.Sprintf("[l%d](/u%d \"t\") ![i%d](/s%d) ", i, i, i, i) })+"\n"),
			[]byte(rep(n, func(i int) string {
				return fmt.Sprintf("`c%d` <http://a%d.b> &amp; &#%d; <b>r%d</b> ", i, i, 64+i%26, i)
			})+"\n"),
			[]byte(rep(n, func(i int) string { return fmt.Sprintf("l%d  \nm%d\\\n", i, i) })+"end\n"),
			[]byte("T\n"+rep(n, func(i int) string { return fmt.Sprintf(": d%d\n", i) })),
			[]byte(rep(n, func(i int) string { return fmt.Sprintf("T%d\n: d\n\n", i) })),
			[]byte(rep(n, func(i int) string { return fmt.Sprintf("- [%s] t%d\n", []string{" ", "x"}[i%2], i) })),
			[]byte(rep(deep, func(i int) string { return strings.Repeat("  ", i-1) + fmt.Sprintf("- i%d\n", i) })),
			[]byte(strings.Repeat("> ", deep)+"q\n"),
			[]byte(rep(n, func(i int) string { return fmt.Sprintf("~~s%d~~ www.a%d.bc \"q%d\" -- ", i, i, i) })+"\n"),
			// ONE item used n times: a footnote with n references (and a second one with two), a link reference definition
			// used n times, n headings with the same text, one term with n references inside its descriptions
			[]byte(rep(n, func(i int) string { return "r[^1] " })+"s[^2] t[^2]\n\n[^1]: one\n\n[^2]: two\n"),
			[]byte("[^1]: one\n\n"+rep(n, func(i int) string { return fmt.Sprintf("p%d[^1]\n\n", i) })),
			[]byte(rep(n, func(i int) string { return "[r] ![r][] [t][R] " })+"\n\n[r]: /u 't'\n"),
			[]byte(rep(n, func(i int) string { return "# same\n\n" })),
			// names of every length n: an HTML tag name (mixed case, as a block start, a closing tag and inline), an attribute name,
			// an info string word, a reference label, an autolink scheme
			[]byte("<"+strings.Repeat("Ab-", n)[:n]+">\n\nx <"+strings.Repeat("Cd", n)[:n]+" k=\"v\"> y </"+strings.Repeat("EF", n)[:n]+">\n\n</"+strings.Repeat("Gh", n)[:n]+">\n"),
			[]byte("# t {"+strings.Repeat("Da-", n)[:n]+"x=v data-"+strings.Repeat("n", n)+"=w}\n\n```"+strings.Repeat("Go", n)[:n]+" rest\nc\n```\n\n["+strings.Repeat("Lb", n)[:n]+"]\n\n["+strings.Repeat("lB", n)[:n]+"]: /u\n\n<"+strings.Repeat("sc", n)[:n]+":x>\n"),
			[]byte(rep(n, func(i int) string { return fmt.Sprintf("same\n%s\n\n", []string{"===", "---"}[i%2]) })),
		)
	}
	return out
}

// UnicodeDocs returns inline documents in which emphasis delimiters, link brackets and code spans sit next to non-ASCII
// whitespace and punctuation (the flanking rules classify by Unicode category) and East Asian text with line breaks.
func UnicodeDocs() [][]byte {
	nb := []string{"a", "é", "あ", "\u00a0", "\u2003", "\u3000", "«", "»", "。", "，", "“", "”", "¿", "\u200b", "\ufeff", "𝒜", "İ", "ß"}
	var out [][]byte
	for _, l := range nb {
		for _, r := range nb {
			for _, t := range []string{"x%s*%sy%s*%sz", "x%s_%sy%s_%sz", "x%s**%sy%s**%sz", "%s[%sy%s](u)%s", "%s`%sy%s`%s", "~~%s~%sy%s~~%s", "%s\n%s %s\n%s"} {
				out = append(out, []byte(fmt.Sprintf(t, l, r, l, r)+"\n"))
			}
		}
	}
	return out
}

// CRLF returns doc with every line ending written CR LF.
func CRLF(doc []byte) []byte {
	return bytes.ReplaceAll(bytes.ReplaceAll(doc, []byte("\r\n"), []byte("\n")), []byte("\n"), []byte("\r\n"))
}

// HeadingShapeDocs returns every ATX heading shape level × text × closing sequence × attribute block × final newline ×
// container, and Setext headings with attribute blocks: the places where an ATX line is cut into text, closer and
// attributes from both ends (empty texts, closers without text, attribute blocks directly behind the closer).
func HeadingShapeDocs() [][]byte {
	var out [][]byte
	texts := []string{"", "h", "h  ", "#", "h #", "\\#", "h\\"}
	closers := []string{"", " #", " ##", "  ###  ", "#", " # #"}
	attrs := []string{"", " {#a}", " {.c}", " {#a .c k=v}", "{#a}", " {#a} ", " {", " {}"}
	for lvl := 1; lvl <= 6; lvl += 2 {
		for _, t := range texts {
			for _, c := range closers {
				for _, a := range attrs {
					for _, pre := range []string{"", "> ", "- ", "   "} {
						line := pre + strings.Repeat("#", lvl)
						if t != "" {
							line += " " + t
						}
						line += c + a
						out = append(out, []byte(line), []byte(line+"\n"), []byte(line+"\nnext\n"))
					}
				}
			}
		}
	}
	for _, t := range []string{"h", "h\nk", "h  ", "h #"} {
		for _, a := range attrs {
			for _, u := range []string{"===", "-", "=  "} {
				out = append(out, []byte(t+a+"\n"+u+"\n"), []byte("> "+strings.ReplaceAll(t+a, "\n", "\n> ")+"\n> "+u))
			}
		}
	}
	return out
}

// SlotDocs places every block construct in every block-level slot of a container or extension construct: list items,
// ordered items, quotes, task items, footnote bodies, definition-list terms and descriptions (first and later ones),
// directly after and before a paragraph line. Continuation lines of the construct get the slot's indentation.
func SlotDocs() [][]byte {
	type slot struct{ before, first, cont, after string }
	slots := []slot{
		{"", "- ", "  ", ""}, {"", "1. ", "   ", ""}, {"", "> ", "> ", ""}, {"", "- [ ] ", "  ", ""}, {"- a\n", "  - ", "    ", ""}, {"> - a\n", "> - ", ">   ", ""},
		{"x[^1]\n\n", "[^1]: ", "    ", ""}, {"", "", "", "\n: d\n"}, {"t\n: d\n\n", "", "", "\n: e\n"}, {"t\n", ": ", "  ", ""}, {"t\n: d\n", ": ", "  ", ""},
		{"p\n", "", "", ""}, {"", "", "", "\np\n"}, {"- a\n\n", "  ", "  ", ""}, {"|a|\n|-|\n", "", "", ""}, {"", "", "", "\n|a|\n|-|\n"},
	}
	constructs := []string{"a", "[x]: /u", "[x]: /u\n[y]: /v 't'", "[x]: /u\ntext [x]", "[x]:\n/u\n'multi\nline'", "[^2]: fn", "# h", "h\n===", "h\n---", "***", "- i", "1. i", "-", "> q", ">",
		"```\nc\n```", "```", "~~~ info\nc", "    code", "<div>\nh\n</div>", "<!-- c -->", "<?p", "|a|b|\n|-|-|\n|c|d|", "a\n: b", "- [x] t", "a  \nb", "a\\\nb", "*a\nb*", "`a\nb`", "[l\nm](u)",
		"![i](s 't')", "<http://a.b>", "www.a.bc", "\"q\" -- ...", "~~s~~", "a[^1]", "# h {#i}", "&amp; &#0; \\&", "\ta", "a\n\n\nb", "[x]", "[x][]", "[t][x]"}
	var out [][]byte
	for _, sl := range slots {
		for _, c := range constructs {
			lines := strings.Split(c, "\n")
			var b strings.Builder
			b.WriteString(sl.before)
			for i, l := range lines {
				if i == 0 {
					b.WriteString(sl.first)
				} else {
					b.WriteString(sl.cont)
				}
				b.WriteString(l)
				if i < len(lines)-1 {
					b.WriteString("\n")
				}
			}
			b.WriteString(sl.after)
			out = append(out, []byte(b.String()), []byte(b.String()+"\n\n[x]: /late\n"))
		}
	}
	return out
}

// URLShapeDocs places destinations with raw tabs, carriage returns, spaces, backslashes and percent signs (the bytes a
// URL predicate or escaper might strip, fold or rewrite) in every URL-bearing construct of the URL check.
func URLShapeDocs() [][]byte {
	pay := []string{"x\ty", "x\ry", "\tx", "x\t", "a b", "x\\\ty", "%0Ax", "x%", "java\tscript:a", "\x01x", "x\u00a0y", "/p(q)r", "<x>", "x\\>y", "é/ü?a=b&c"}
	var out [][]byte
	for _, k := range urlConstructs {
		for _, p := range pay {
			out = append(out, []byte(strings.ReplaceAll(k.tmpl, "§", p)))
		}
	}
	return out
}

// attrNameNeighbours returns attribute names that are *near* the allowed vocabulary without being in it: every name of
// ≤3 lower-case letters; for every allowed name every single-byte substitution, deletion, insertion and transposition of two
// positions; every rearrangement of its first four bytes; every name whose first three bytes are each taken from the
// same position of *some* allowed name (the joint adversary of per-position tables) with the tail of an allowed name; every
// crossover head(b,k)+tail(a,k) of two allowed names; and (thorough) every double substitution by letters. Names in the
// vocabulary itself are removed. Sorted, duplicate-free.
func attrNameNeighbours(allowed []string, thorough bool) []string {
	in := map[string]bool{}
	for _, a := range allowed {
		in[a] = true
	}
	seen := map[string]bool{}
	var out []string
	add := func(n string) {
		if n == "" || in[n] || seen[n] || strings.HasPrefix(n, "data-") {
			return
		}
		c := n[0]
		if !(c >= 'a' && c <= 'z' || c >= 'A' && c <= 'Z' || c == '_' || c == ':') {
			return
		}
		seen[n] = true
		out = append(out, n)
	}
	const letters = "abcdefghijklmnopqrstuvwxyz"
	for _, a := range letters {
		add(string(a))
		for _, b := range letters {
			add(string(a) + string(b))
			for _, c := range letters {
				add(string(a) + string(b) + string(c))
			}
		}
	}
	var posAlpha [3]map[byte]bool
	for i := range posAlpha {
		posAlpha[i] = map[byte]bool{}
		for _, a := range allowed {
			if i < len(a) {
				posAlpha[i][a[i]] = true
			}
		}
	}
	sub := letters + "-_0A"
	for _, a := range allowed {
		b := []byte(a)
		for i := range b {
			for j := 0; j < len(sub); j++ {
				t := append([]byte{}, b...)
				t[i] = sub[j]
				add(string(t))
				add(string(b[:i]) + string(sub[j]) + string(b[i:]))
			}
			add(string(b[:i]) + string(b[i+1:]))
			for j := i + 1; j < len(b); j++ {
				t := append([]byte{}, b...)
				t[i], t[j] = t[j], t[i]
				add(string(t))
			}
		}
		add(a + "s")
		// rearrangements of the first four bytes
		k := len(b)
		if k > 4 {
			k = 4
		}
		var perm func(p []byte, rest []byte)
		perm = func(p, rest []byte) {
			if len(rest) == 0 {
				add(string(p) + string(b[k:]))
				return
			}
			for i := range rest {
				r2 := append(append([]byte{}, rest[:i]...), rest[i+1:]...)
				perm(append(append([]byte{}, p...), rest[i]), r2)
			}
		}
		perm(nil, append([]byte{}, b[:k]...))
		// first three bytes from the per-position unions
		if len(b) >= 1 {
			m := len(b)
			if m > 3 {
				m = 3
			}
			var rec func(i int, p []byte)
			rec = func(i int, p []byte) {
				if i == m {
					add(string(p) + string(b[m:]))
					return
				}
				for c := range posAlpha[i] {
					rec(i+1, append(append([]byte{}, p...), c))
				}
			}
			rec(0, nil)
		}
		for _, o := range allowed {
			for k := 1; k < len(a) && k < len(o); k++ {
				add(o[:k] + a[k:])
			}
		}
		if thorough {
			for i := range b {
				for j := i + 1; j < len(b); j++ {
					for x := 0; x < 26; x++ {
						for y := 0; y < 26; y++ {
							t := append([]byte{}, b...)
							t[i], t[j] = letters[x], letters[y]
							add(string(t))
						}
					}
				}
			}
		}
	}
	sort.Strings(out)
	return out
}

// SinkByteDocs returns every sink template of the safe-markup check with its payload position holding every byte value
// 0..255, alone and between two letters.
func SinkByteDocs() [][]byte {
	var docs [][]byte
	for _, ctx := range sinkContexts {
		for b := 0; b < 256; b++ {
			c := string([]byte{byte(b)})
			docs = append(docs, []byte(strings.ReplaceAll(ctx.tmpl, "§", c)), []byte(strings.ReplaceAll(ctx.tmpl, "§", "a"+c+"b")))
		}
	}
	return docs
}

// SinkLineShapeDocs returns every sink template with its payload position holding an inline atom placed on the first,
// the last or an inner line of a multi-line payload, and directly before / behind a hard line break of either spelling.
func SinkLineShapeDocs() [][]byte {
	atoms := []string{"a", "*e*", "`c`", "[l](u)", "<b>", "&amp;", "![i](s)", "<http://h/>", "\\*"}
	shapes := []string{"x\n§", "§\nx", "x\n§\ny", "x  \n§", "§\\\nx", "§\n§"}
	var docs [][]byte
	for _, ctx := range sinkContexts {
		for _, a := range atoms {
			for _, sh := range shapes {
				docs = append(docs, []byte(strings.ReplaceAll(ctx.tmpl, "§", strings.ReplaceAll(sh, "§", a))))
			}
		}
	}
	return docs
}

// sharedContextSub converts (or parses) runs of three consecutive corpus documents d_i, d_i+1, d_i on one instance with ONE
// parser.Context handed in through parser.WithContext / Parse(…, WithContext) and hands every result to judge. Only
// oracles that hold for each result on its own may be used here: link reference definitions and heading ids
// legitimately survive in a reused context.
// sharedCtxGuard, when set (by C01), is told which document a worker is about to convert, so that a call that never
// returns is attributed to its input.
var sharedCtxGuard func(s *core.Sub, key any, cfg string, d []byte) (done func())

func sharedContextSub(r *core.Run, name, what string, cfg core.Cfg, docs [][]byte,
	judge func(s *core.Sub, cfg core.Cfg, d []byte, out []byte, tree ast.Node, hist []string)) {
	s := r.Sub(name, fmt.Sprintf("%d runs of three documents (d_i, d_i+1, d_i of the structured corpus) converted and parsed one after the other on one instance with one parser.Context passed through parser.WithContext, under %s: %s", len(docs), cfg, what))
	s.Planned = int64(3 * len(docs))
	s.Bound = fmt.Sprintf("%d runs × 3 documents", len(docs))
	complete := core.ForEachIndex(len(docs), core.Workers(), func(w int) func(int) {
		md := cfg.New()
		var buf bytes.Buffer
		return func(i int) {
			pc := parser.NewContext()
			var hist []string
			hist = append(hist, "pc := parser.NewContext()")
			for _, d := range [][]byte{docs[i], docs[(i+1)%len(docs)], docs[i]} {
				buf.Reset()
				var pan any
				var err error
				var tree ast.Node
				func() {
					defer func() { pan = recover() }()
					if sharedCtxGuard != nil {
						defer sharedCtxGuard(s, &buf, cfg.String()+" (one parser.Context for consecutive corpus documents)", d)()
					}
					err = md.Convert(d, &buf, parser.WithContext(pc))
					tree = md.Parser().Parse(text.NewReader(d), parser.WithContext(pc))
				}()
				s.Evals.Add(1)
				hist = append(hist, "Convert("+core.Q(d)+", WithContext(pc)); Parse(same, WithContext(pc))")
				if pan != nil || err != nil {
					s.Violate("convert-failed:shared-context", cfg.String(), d, hist, fmt.Sprint("panic=", pan, " err=", err), "", "")
					md = cfg.New()
					break
				}
				judge(s, cfg, d, buf.Bytes(), tree, hist)
			}
			s.Distinct(core.Hash(docs[i]))
			if i%(len(docs)/5+1) == 0 {
				s.AddSample([]string{core.Q(docs[i]), core.Q(docs[(i+1)%len(docs)])})
			}
		}
	}, r.Expired)
	if !complete {
		s.Incomplete("internal deadline reached")
	}
	s.States.Store(int64(len(docs)))
	s.Transitions.Store(s.Evals.Load())
	s.Done()
}

// WideDocs returns documents in which ONE node has N children, for N = 2^k-1, 2^k, 2^k+1 (k = 8..maxK): N top-level
// paragraphs, one list of N items, one paragraph of N emphasis nodes, one paragraph of N lines, one block quote of N
// paragraphs, one table of N rows, one definition list of N descriptions. Whatever is kept per child or counts children
// crosses each power of two.
func WideDocs(maxK int) [][]byte {
	var out [][]byte
	for k := 8; k <= maxK; k++ {
		for _, n := range []int{1<<k - 1, 1 << k, 1<<k + 1} {
			out = append(out,
				[]byte(strings.Repeat("a\n\n", n)),
				[]byte(strings.Repeat("- a\n", n)),
				[]byte(strings.Repeat("*a* ", n)+"\n"),
				[]byte(strings.Repeat("a\n", n)),
				[]byte(strings.Repeat("> a\n>\n", n)),
				[]byte("|h|\n|-|\n"+strings.Repeat("|c|\n", n)),
				[]byte("T\n"+strings.Repeat(": d\n", n)),
				[]byte(strings.Repeat("1. a\n\n", n)),
			)
		}
	}
	return out
}
