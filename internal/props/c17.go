package props

import (
	"bytes"
	"fmt"
	"strings"

	"github.com/yuin/goldmark/ast"
	east "github.com/yuin/goldmark/extension/ast"

	"verif/internal/core"
	"verif/internal/strict"
)

func init() {
	register(&Check{ID: "C17", QuickS: 200, ThorS: 1800, Run: runC17, Replay: replayC17})
}

type tblCell struct {
	head  bool
	align string
	empty bool
}

type tblShape struct {
	theads   int
	headRows int
	head     []tblCell
	body     [][]tblCell
	problems []string
}

func cellAlign(t *strict.Token) string {
	if v, ok := t.Attr("align"); ok {
		return v
	}
	if v, ok := t.Attr("style"); ok && strings.HasPrefix(v, "text-align:") {
		return strings.TrimPrefix(v, "text-align:")
	}
	return ""
}

// tableShapes extracts every table of the tokenized output.
func tableShapes(toks []strict.Token) []*tblShape {
	var out []*tblShape
	var cur *tblShape
	inHead, inBody := false, false
	var row []tblCell
	var cell *tblCell
	for i := range toks {
		t := &toks[i]
		switch t.Kind {
		case strict.Start:
			switch t.Name {
			case "table":
				if cur != nil {
					cur.problems = append(cur.problems, "nested-table")
				}
				cur = &tblShape{}
				out = append(out, cur)
			case "thead":
				if cur != nil {
					cur.theads++
					inHead = true
				}
			case "tbody":
				inBody = true
			case "tr":
				row = nil
				if cur != nil && !inHead && !inBody {
					cur.problems = append(cur.problems, "row-outside-thead-tbody")
				}
			case "th", "td":
				row = append(row, tblCell{head: t.Name == "th", align: cellAlign(t), empty: true})
				cell = &row[len(row)-1]
				if cur != nil && (t.Name == "th") != inHead {
					cur.problems = append(cur.problems, "cell-kind-in-wrong-section")
				}
			default:
				if cell != nil {
					cell.empty = false
				}
			}
		case strict.Text:
			if cell != nil && strings.TrimSpace(t.Text) != "" {
				cell.empty = false
			}
		case strict.End:
			switch t.Name {
			case "th", "td":
				cell = nil
			case "tr":
				if cur != nil {
					if inHead {
						cur.headRows++
						cur.head = row
					} else {
						cur.body = append(cur.body, row)
					}
				}
			case "thead":
				inHead = false
			case "tbody":
				inBody = false
			case "table":
				cur = nil
			}
		}
	}
	return out
}

// genericTableProblems: one header row; every body row as wide as the header; a column's cells carry only the
// header's alignment.
func genericTableProblems(sh *tblShape) []string {
	p := append([]string{}, sh.problems...)
	if sh.theads != 1 || sh.headRows != 1 {
		p = append(p, fmt.Sprintf("header-rows:%d/%d", sh.theads, sh.headRows))
	}
	if len(sh.head) == 0 {
		p = append(p, "empty-header")
	}
	for _, r := range sh.body {
		if len(r) != len(sh.head) {
			p = append(p, "ragged-row")
			break
		}
	}
	for _, r := range sh.body {
		for c := range r {
			if c < len(sh.head) && r[c].align != "" && r[c].align != sh.head[c].align {
				p = append(p, "cell-alignment-differs-from-column")
			}
		}
	}
	return p
}

func astTableProblems(doc ast.Node) []string {
	var p []string
	_ = ast.Walk(doc, func(n ast.Node, entering bool) (ast.WalkStatus, error) {
		if t, ok := n.(*east.Table); ok && entering {
			for r := t.FirstChild(); r != nil; r = r.NextSibling() {
				cnt := 0
				for c := r.FirstChild(); c != nil; c = c.NextSibling() {
					cnt++
				}
				if cnt != len(t.Alignments) || r.ChildCount() != cnt {
					p = append(p, fmt.Sprintf("ast-row-width:%d!=%d", cnt, len(t.Alignments)))
				}
			}
		}
		return ast.WalkContinue, nil
	})
	return p
}

func c17Generic(s *core.Sub, cv *core.Conv, doc []byte) (uint64, []*tblShape) {
	out, ok := mustConvert(s, cv, doc)
	if !ok {
		return 0, nil
	}
	s.Evals.Add(1)
	toks, lerr := strict.Tokenize(out)
	if lerr != nil {
		s.Violate("lex:"+lerr.Code, cv.Cfg.String(), doc, nil, lerr.Error(), "", string(out))
		return 0, nil
	}
	shapes := tableShapes(toks)
	for _, sh := range shapes {
		for _, p := range genericTableProblems(sh) {
			s.Violate(p, cv.Cfg.String(), doc, nil, "rendered table is not rectangular / well-formed: "+p, "one header row, all body rows as wide as the header", string(out))
		}
	}
	if len(shapes) > 0 {
		if d, pan := cv.Parse(doc); pan == nil {
			for _, p := range astTableProblems(d) {
				s.Violate(p, cv.Cfg.String(), doc, nil, "AST table row width differs from the column count", "", string(out))
			}
		}
		return core.Hash(out), shapes
	}
	return 0, shapes
}

var c17Contents = []string{"a", " ", "\\|", "`a\\|b`", " a ", "*a*", "x y", "`a\\|b\\|c`"}
var c17Aligns = []struct{ delim, name string }{{"-", ""}, {":-", "left"}, {"-:", "right"}, {":-:", "center"}}

// c17Row prints one row; lead/trail say whether the leading/trailing pipe is written. ok=false when the
// spelling would be ambiguous (see DESIGN: an empty cell needs a following pipe, a row needs a pipe somewhere).
func c17Row(cells []string, lead, trail bool) (string, bool) {
	if len(cells) == 0 {
		return "|", lead && !trail
	}
	if !lead && strings.TrimSpace(cells[0]) == "" {
		return "", false
	}
	if !trail && strings.TrimSpace(cells[len(cells)-1]) == "" {
		return "", false
	}
	if len(cells) == 1 && !lead && !trail {
		return "", false
	}
	s := strings.Join(cells, "|")
	if lead {
		s = "|" + s
	}
	if trail {
		s += "|"
	}
	return s, true
}

func place(lines []string, placement int) string {
	switch placement {
	case 1:
		return "p\n" + strings.Join(lines, "\n")
	case 2:
		return "> " + strings.Join(lines, "\n> ")
	case 3:
		return "- " + strings.Join(lines, "\n  ")
	}
	return strings.Join(lines, "\n")
}

func runC17(r *core.Run) {
	for _, cn := range []string{"gfm+align=attr", "all+align=style"} {
		sharedContextSub(r, "shared-context/"+cn, "every rendered table is rectangular and every AST table row as wide as its table", core.MustCfg(cn), c12StructuredDocs(r.Quick()),
			func(s *core.Sub, cfg core.Cfg, d, out []byte, tree ast.Node, hist []string) {
				toks, lerr := strict.Tokenize(out)
				if lerr != nil {
					s.Violate("lex:"+lerr.Code+"|shared-context", cfg.String(), d, hist, lerr.Error(), "", string(out))
					return
				}
				for _, sh := range tableShapes(toks) {
					for _, p := range genericTableProblems(sh) {
						s.Violate(p+"|shared-context", cfg.String(), d, hist, "rendered table is not rectangular / well-formed: "+p, "one header row, all body rows as wide as the header", string(out))
					}
				}
				for _, p := range astTableProblems(tree) {
					s.Violate(p+"|shared-context", cfg.String(), d, hist, "AST table row width differs from the column count", "", string(out))
				}
			})
	}
	runC17Volume(r)
	maxRows := core.Pick(r, 1, 2)
	type combo struct {
		h, d int
		al   []int
	}
	var combos []combo
	for h := 1; h <= 3; h++ {
		for d := 1; d <= 3; d++ {
			n := 1
			for i := 0; i < d; i++ {
				n *= 4
			}
			for a := 0; a < n; a++ {
				al := make([]int, d)
				x := a
				for i := range al {
					al[i] = x % 4
					x /= 4
				}
				combos = append(combos, combo{h, d, al})
			}
		}
	}
	// the alignment method through both documented channels (an option of NewTable, a renderer option), every method that
	// writes an alignment, alone and next to other renderer options
	for _, cn := range []string{"table+align=attr", "gfm+align=style", "table+align=default", "table+xhtml+align=default", "table+align=default-ro", "table+xhtml+align=default-ro",
		"table+align=attr-ro", "gfm+unsafe+xhtml+hardwraps+align=style-ro", "gfm+unsafe+hardwraps+align=default-ro", "table"} {
		cfg := core.MustCfg(cn)
		if cn != "table+align=attr" && r.Quick() {
			maxRows = 0
		}
		s := r.Sub("structured/"+cn, fmt.Sprintf("header cells h∈1..3 × delimiter cells d∈1..3 × all alignment vectors × body rows 0..%d with 0..4 cells × 8 content rotations (%q) × leading/trailing pipe present or absent on header, delimiter and body rows × placement {top, after a paragraph line, in a block quote, in a list item} under %s; h≠d ⇒ no <table>; h=d ⇒ exactly the predicted shape (one header row, every body row h cells, written cells carry the column alignment, padded cells empty and unaligned); distinct = output digest", maxRows, c17Contents, cn))
		s.Bound = fmt.Sprintf("h,d≤3 rows≤%d cells≤4", maxRows)
		mr := maxRows
		core.ForEachIndex(len(combos), core.Workers(), func(w int) func(int) {
			cv := core.NewConv(cfg)
			return func(ci int) {
				co := combos[ci]
				// body row width vectors
				var widths [][]int
				widths = append(widths, nil)
				for a := 0; a <= 4 && mr >= 1; a++ {
					widths = append(widths, []int{a})
					for b := 0; b <= 4 && mr >= 2; b++ {
						widths = append(widths, []int{a, b})
					}
				}
				for _, ws := range widths {
					for rot := 0; rot < len(c17Contents); rot++ {
						for pipes := 0; pipes < 64; pipes++ {
							hl, ht := pipes&1 != 0, pipes&2 != 0
							dl, dt := pipes&4 != 0, pipes&8 != 0
							bl, bt := pipes&16 != 0, pipes&32 != 0
							if len(ws) == 0 && (bl || bt) {
								continue
							}
							hc := make([]string, co.h)
							for c := range hc {
								hc[c] = c17Contents[(c+rot)%len(c17Contents)]
							}
							hrow, ok := c17Row(hc, hl, ht)
							if !ok {
								continue
							}
							dc := make([]string, co.d)
							for c := range dc {
								dc[c] = c17Aligns[co.al[c]].delim
							}
							drow, ok := c17Row(dc, dl, dt)
							if !ok || (co.d == 1 && !dl && !dt) {
								continue
							}
							lines := []string{hrow, drow}
							good := true
							for j, wdt := range ws {
								bc := make([]string, wdt)
								for c := range bc {
									bc[c] = c17Contents[(c+j+1+rot)%len(c17Contents)]
								}
								row, ok := c17Row(bc, bl, bt)
								if wdt == 0 {
									row, ok = "|", true
								}
								if !ok {
									good = false
									break
								}
								lines = append(lines, row)
							}
							if !good {
								continue
							}
							for placement := 0; placement < 4; placement++ {
								doc := []byte(place(lines, placement))
								h, shapes := c17Generic(s, cv, doc)
								s.States.Add(1)
								if h != 0 {
									s.Distinct(h)
								}
								if shapes == nil && h == 0 && co.h == co.d {
									// fallthrough to the shape check below (no table at all)
								}
								c17Predict(s, cv, doc, co.h, co.d, co.al, ws, rot, shapes)
								if s.States.Load()%200000 == 1 {
									s.AddSample(core.Q(doc))
								}
							}
						}
					}
				}
			}
		}, r.Expired)
		s.Transitions.Store(s.Evals.Load())
		s.Done()
	}
	runC17ZeroWidth(r)
	runC17DelimCandidates(r)
	docsSub(r, "count-families/gfm+align=style", "the indexed families of CountDocs (tables of n columns and of n rows for EVERY n up to the bound, and the other n-item families) under gfm: generic clauses (rectangular, one header row, alignment consistent, AST row widths)",
		core.MustCfg("gfm+align=style"), CountDocs(core.Pick(r, 150, 400)), func(s *core.Sub, cv *core.Conv, w []byte) { c17Generic(s, cv, w) })
	soup := []string{"|", "-", ":", "a", " ", "\n", "\\|", "`", "> ", "- "}
	for _, cn := range []string{"table", "gfm+align=attr"} {
		cfg := core.MustCfg(cn)
		wordsSub(r, "soup/"+cn, "pipe/dash/colon soup: every rendered table has one header row, all body rows as wide as the header, cell alignments consistent with the column, AST row widths equal to the column count; non-trivial = output has a table",
			soup, core.Pick(r, 6, 7), func(s *core.Sub, w int) func([]byte) uint64 {
				cv := core.NewConv(cfg)
				return func(word []byte) uint64 { h, _ := c17Generic(s, cv, word); return h }
			})
	}
}

// c17Predict compares the single expected table with the model's prediction.
func c17Predict(s *core.Sub, cv *core.Conv, doc []byte, h, d int, al []int, ws []int, rot int, shapes []*tblShape) {
	cfg := cv.Cfg.String()
	if h != d {
		if len(shapes) != 0 {
			s.Violate("table-despite-header-delimiter-mismatch", cfg, doc, nil, fmt.Sprintf("header has %d cells, delimiter row %d, yet a table was rendered", h, d), "no table", "table")
		}
		return
	}
	if len(shapes) != 1 {
		s.Violate(fmt.Sprintf("expected-one-table-got-%d", len(shapes)), cfg, doc, nil, fmt.Sprintf("header and delimiter row both have %d cells", h), "one table", fmt.Sprint(len(shapes)))
		return
	}
	sh := shapes[0]
	if len(sh.head) != h || len(sh.body) != len(ws) {
		s.Violate("shape-differs-from-model", cfg, doc, nil, fmt.Sprintf("expected %d header cells and %d body rows, got %d and %d", h, len(ws), len(sh.head), len(sh.body)), "", "")
		return
	}
	for c := 0; c < h; c++ {
		if sh.head[c].align != c17Aligns[al[c]].name {
			s.Violate("header-alignment-differs-from-model", cfg, doc, nil, fmt.Sprintf("column %d: expected %q got %q", c, c17Aligns[al[c]].name, sh.head[c].align), "", "")
			return
		}
	}
	for j, row := range sh.body {
		if len(row) != h {
			return // reported by the generic clause
		}
		for c := 0; c < h; c++ {
			written := c < ws[j]
			want := ""
			if written {
				want = c17Aligns[al[c]].name
			}
			if row[c].align != want {
				s.Violate("cell-alignment-differs-from-model", cfg, doc, nil, fmt.Sprintf("body row %d column %d (written=%v): expected alignment %q got %q", j, c, written, want, row[c].align), "", "")
				return
			}
			if !written && !row[c].empty {
				s.Violate("padded-cell-not-empty", cfg, doc, nil, fmt.Sprintf("body row %d column %d is padding but has content", j, c), "", "")
				return
			}
			if written {
				content := c17Contents[(c+j+1+rot)%len(c17Contents)]
				if (strings.TrimSpace(content) == "") != row[c].empty {
					s.Violate("cell-content-misplaced", cfg, doc, nil, fmt.Sprintf("body row %d column %d: source cell %q, rendered empty=%v", j, c, content, row[c].empty), "", "")
					return
				}
			}
		}
	}
}

// runC17DelimCandidates: delimiter-row candidates that are not delimiter rows. Header of h plain cells (every cell "a",
// with a leading and a trailing pipe) × second line = every vector of 1..4 cells over {"-", ":-", "-:", ":-:", "--", "a",
// " ", zero-width} with a leading and a trailing pipe × one body row. The second line is a delimiter row iff every cell
// is one; the document renders a table iff it is one and has exactly h cells (the statement: a candidate header whose
// cell count differs from the delimiter row does not become a table at all). The family is run twice in the same
// process, so that anything remembered about one row meets every other row.
func runC17DelimCandidates(r *core.Run) {
	cellsA := []string{"-", ":-", "-:", ":-:", "--", "a", " ", ""}
	isDelim := func(c string) bool {
		c = strings.TrimSpace(c)
		c = strings.TrimPrefix(c, ":")
		c = strings.TrimSuffix(c, ":")
		return c != "" && strings.Trim(c, "-") == ""
	}
	type cand struct {
		line  string
		n     int
		valid bool
	}
	var cands []cand
	for d := 1; d <= 4; d++ {
		total := 1
		for i := 0; i < d; i++ {
			total *= len(cellsA)
		}
		for x := 0; x < total; x++ {
			y := x
			cells := make([]string, d)
			valid := true
			for i := range cells {
				cells[i] = cellsA[y%len(cellsA)]
				y /= len(cellsA)
				valid = valid && isDelim(cells[i])
			}
			cands = append(cands, cand{"|" + strings.Join(cells, "|") + "|", d, valid})
		}
	}
	for _, cn := range []string{"table+align=attr", "gfm+align=style"} {
		cfg := core.MustCfg(cn)
		s := r.Sub("delimiter-candidates/"+cn, fmt.Sprintf("header of h = 1..4 cells × second line = each of %d pipe-delimited cell vectors (1..4 cells over %q) × one body row, at top level and in a block quote, the whole family twice in one process, under %s: a table is rendered iff every cell of the second line is a delimiter cell and there are exactly h of them", len(cands), cellsA, cn))
		s.Planned = int64(2 * 4 * 2 * len(cands))
		s.Bound = fmt.Sprintf("%d candidates × h≤4 × 2 placements × 2 passes", len(cands))
		for pass := 0; pass < 2; pass++ {
			core.ForEachIndex(len(cands), core.Workers(), func(w int) func(int) {
				cv := core.NewConv(cfg)
				return func(ci int) {
					c := cands[ci]
					for h := 1; h <= 4; h++ {
						for _, placement := range []int{0, 2} {
							doc := []byte(place([]string{"|" + strings.Repeat("a|", h), c.line, "|" + strings.Repeat("b|", h)}, placement))
							hsh, shapes := c17Generic(s, cv, doc)
							want := c.valid && c.n == h
							if want != (len(shapes) == 1) || len(shapes) > 1 {
								s.Violate(fmt.Sprintf("table-presence-differs-from-model:want=%v", want), cfg.String(), doc, nil,
									fmt.Sprintf("second line %q: %d cells, all delimiter cells=%v, header has %d cells: a table is expected=%v, tables rendered=%d (pass %d)", c.line, c.n, c.valid, h, want, len(shapes), pass+1), "", "")
							}
							if hsh != 0 {
								s.Distinct(hsh)
							}
						}
					}
					if pass == 0 && ci%(len(cands)/5+1) == 0 {
						s.AddSample(core.Q([]byte("|a|a|\n" + c.line + "\n|b|b|")))
					}
				}
			}, r.Expired)
		}
		s.States.Store(s.Evals.Load())
		s.Transitions.Store(s.Evals.Load())
		s.Done()
	}
}

// runC17ZeroWidth: rows whose cells may have zero width ("||"). The statement does not say whether a zero-width cell
// counts as a cell, so no shape is predicted; only the generic clauses are judged (one header row, every body row as
// wide as the header, consistent alignment, AST row widths equal to the column count).
func runC17ZeroWidth(r *core.Run) {
	maxBody := core.Pick(r, 1, 2)
	var rows [][]string // every cell vector of width 0..4 over {"a", ""}
	for w := 0; w <= 4; w++ {
		for m := 0; m < 1<<w; m++ {
			c := make([]string, w)
			for i := range c {
				if m>>i&1 == 1 {
					c[i] = "a"
				}
			}
			rows = append(rows, c)
		}
	}
	spell := func(cells []string, lead, trail bool) (string, bool) {
		s := strings.Join(cells, "|")
		if lead {
			s = "|" + s
		}
		if trail {
			s += "|"
		}
		return s, strings.Contains(s, "|") && strings.TrimSpace(s) != ""
	}
	var lines []string // every spelled row
	seen := map[string]bool{}
	for _, c := range rows {
		for p := 0; p < 4; p++ {
			if l, ok := spell(c, p&1 != 0, p&2 != 0); ok && !seen[l] {
				seen[l] = true
				lines = append(lines, l)
			}
		}
	}
	var delims []string
	for d := 1; d <= 3; d++ {
		c := make([]string, d)
		for i := range c {
			c[i] = []string{"-", ":-", "-:"}[i%3]
		}
		for p := 0; p < 4; p++ {
			if l, ok := spell(c, p&1 != 0, p&2 != 0); ok {
				delims = append(delims, l)
			}
		}
	}
	for _, cn := range []string{"table+align=attr", "gfm+align=style"} {
		cfg := core.MustCfg(cn)
		s := r.Sub("zero-width/"+cn, fmt.Sprintf("header row × delimiter row (1..3 cells, every leading/trailing pipe spelling) × ≤%d body rows, rows being every cell vector of width 0..4 over {\"a\", zero-width} in every leading/trailing pipe spelling (%d spelled rows), at top level and in a block quote, under %s; generic clauses only (rectangular, one header row, alignment consistent, AST row widths)", maxBody, len(lines), cn))
		s.Bound = fmt.Sprintf("%d rows × %d delimiters × body ≤%d", len(lines), len(delims), maxBody)
		core.ForEachIndex(len(lines), core.Workers(), func(w int) func(int) {
			cv := core.NewConv(cfg)
			return func(hi int) {
				for _, d := range delims {
					bodies := [][]string{nil}
					for _, b := range lines {
						bodies = append(bodies, []string{b})
					}
					if maxBody >= 2 {
						for _, b := range lines {
							for _, b2 := range lines[:len(lines)/4] {
								bodies = append(bodies, []string{b, b2})
							}
						}
					}
					for _, body := range bodies {
						for _, placement := range []int{0, 2} {
							doc := []byte(place(append([]string{lines[hi], d}, body...), placement))
							h, _ := c17Generic(s, cv, doc)
							s.States.Add(1)
							if h != 0 {
								s.Distinct(h)
							}
							if s.States.Load()%40000 == 1 {
								s.AddSample(core.Q(doc))
							}
						}
					}
				}
			}
		}, r.Expired)
		s.Transitions.Store(s.Evals.Load())
		s.Done()
	}
}

func replayC17(r *core.Run, v *core.Violation) {
	cfg, err := core.ParseCfg(v.Cfg)
	if err != nil {
		fmt.Println(err)
		return
	}
	s := r.Sub(v.Sub, "replay of one document (generic clauses)")
	c17Generic(s, core.NewConv(cfg), v.Input())
	s.Done()
}

// runC17Volume: tables whose total number of padded cells is large. Each row is ordinary; only the cumulative volume
// inside one table grows (c columns, r one-cell body rows, c*r just beyond 2^19, 2^20 and 2^21 where reachable).
func runC17Volume(r *core.Run) {
	s := r.Sub("volume", "for c = 2^0..2^12 columns and r = ceil(T/c)+1 one-cell body rows with T in {2^19, 2^20} (quick) / also 2^21 (thorough): the rendered table is rectangular (every body row has exactly c cells, one header row) — each row is short and needs c-1 padding cells, only the cumulative number of padded cells is large; output scanned with a counting scanner (the strict tokenizer would need minutes on 10 MB)")
	cfg := core.MustCfg("table")
	type job struct{ c, r int }
	var jobs []job
	ts := []int{1 << 19, 1 << 20}
	if !r.Quick() {
		ts = append(ts, 1<<21)
	}
	for _, t := range ts {
		for e := 1; e <= 12; e++ {
			c := 1 << e
			jobs = append(jobs, job{c, t/(c-1) + 2})
		}
	}
	core.ForEachIndex(len(jobs), core.Workers()/2, func(w int) func(int) {
		return func(i int) {
			if r.Expired() {
				s.Incomplete("internal deadline reached")
				return
			}
			j := jobs[i]
			var b strings.Builder
			b.WriteString(strings.Repeat("|h", j.c) + "|\n" + strings.Repeat("|-", j.c) + "|\n")
			for k := 0; k < j.r; k++ {
				b.WriteString("|x|\n")
			}
			doc := []byte(b.String())
			cv := core.NewConv(cfg)
			out, ok := mustConvert(s, cv, doc)
			s.Evals.Add(1)
			if !ok {
				return
			}
			// counting scanner: cells per <tr>
			rows, bad, badRow, badCells := 0, 0, -1, 0
			rest := out
			for {
				a := bytes.Index(rest, []byte("<tr>"))
				if a < 0 {
					break
				}
				e := bytes.Index(rest[a:], []byte("</tr>"))
				if e < 0 {
					break
				}
				row := rest[a : a+e]
				n := bytes.Count(row, []byte("<td")) + bytes.Count(row, []byte("<th"))
				if n != j.c {
					bad++
					if badRow < 0 {
						badRow, badCells = rows, n
					}
				}
				rows++
				rest = rest[a+e:]
			}
			if bytes.Count(out, []byte("<table>")) != 1 || rows != j.r+1 {
				s.Violate("volume:table-shape", cfg.String(), []byte(fmt.Sprintf("%d columns, %d one-cell rows", j.c, j.r)), map[string]any{"columns": j.c, "rows": j.r}, fmt.Sprintf("expected one table with %d rows, found %d tables / %d rows", j.r+1, bytes.Count(out, []byte("<table>")), rows), "", "")
			} else if bad > 0 {
				s.Violate("volume:row-width", cfg.String(), []byte(fmt.Sprintf("%d columns, %d one-cell rows", j.c, j.r)), map[string]any{"columns": j.c, "rows": j.r, "generator": "header |h×c|, delimiter |-×c|, then r lines |x|"}, fmt.Sprintf("%d of %d rows do not have %d cells; first: row %d has %d", bad, rows, j.c, badRow, badCells), fmt.Sprint(j.c), fmt.Sprint(badCells))
			}
			s.Distinct(uint64(j.c)<<32 | uint64(j.r))
		}
	}, nil)
	s.States.Store(int64(len(jobs)))
	s.Transitions.Store(s.Evals.Load())
	s.Bound = fmt.Sprintf("%d (columns, rows) pairs, up to %d padded cells per table", len(jobs), ts[len(ts)-1])
	s.AddSample("1024 columns × 1027 one-cell rows")
	s.Done()
}
