package props

import (
	"bytes"
	"fmt"
	"html"
	"regexp"
	"strings"

	"verif/internal/core"
	"verif/internal/strict"
)

func init() {
	register(&Check{ID: "C04", QuickS: 200, ThorS: 1800, Run: runC04, Replay: replayC04})
}

// browserURL normalises an attribute value the way a browser does before scheme parsing: decode character
// references (HTML5 table, stdlib), strip leading C0 controls and spaces, delete TAB/LF/CR anywhere, lower-case.
// Percent escapes are NOT decoded (browsers do not decode them before scheme parsing).
func browserURL(attr string) string {
	u := html.UnescapeString(attr)
	i := 0
	for i < len(u) && u[i] <= 0x20 {
		i++
	}
	u = u[i:]
	var b strings.Builder
	for i := 0; i < len(u); i++ {
		c := u[i]
		if c == '\t' || c == '\n' || c == '\r' {
			continue
		}
		if c >= 'A' && c <= 'Z' {
			c += 'a' - 'A'
		}
		b.WriteByte(c)
	}
	return b.String()
}

func forbiddenURL(norm string) string {
	for _, p := range []string{"javascript:", "vbscript:", "file:"} {
		if strings.HasPrefix(norm, p) {
			return p
		}
	}
	if strings.HasPrefix(norm, "data:") {
		rest := strings.TrimPrefix(norm, "data:")
		for _, ok := range []string{"image/png;", "image/gif;", "image/jpeg;", "image/webp;", "image/svg+xml;"} {
			if strings.HasPrefix(rest, ok) {
				return ""
			}
		}
		return "data:"
	}
	return ""
}

func c04Case(s *core.Sub, cv *core.Conv, doc []byte, construct string) []byte {
	out, err, pan := cv.Convert(doc)
	if pan != nil || err != nil {
		s.Violate("convert-failed", cv.Cfg.String(), doc, nil, fmt.Sprint(pan, err), "", "")
		return nil
	}
	toks, lerr := strict.Tokenize(out)
	if lerr != nil {
		s.Violate("lex:"+lerr.Code, cv.Cfg.String(), doc, nil, lerr.Error(), "", string(out))
		return out
	}
	// a browser ends a comment earlier than at "-->" in three cases ("<!-->", "<!--->", "--!>"): what follows is live markup
	for _, leaked := range browserCommentLeaks(out) {
		for _, m := range looseURLAttr.FindAllSubmatch(leaked, -1) {
			v := strings.Trim(string(m[2]), "\"'")
			if p := forbiddenURL(browserURL(v)); p != "" {
				s.Violate(fmt.Sprintf("%s-behind-early-comment-end:%s", strings.TrimSuffix(p, ":"), construct), cv.Cfg.String(), doc, nil,
					fmt.Sprintf("a browser ends the comment before %q, which carries a %s URL in %s", core.Clip(string(leaked), 80), p, m[1]), "no live markup with such a URL", string(out))
			}
		}
	}
	for i := range toks {
		t := &toks[i]
		if t.Kind != strict.Start {
			continue
		}
		for _, a := range t.Attrs {
			if a.Name != "href" && a.Name != "src" {
				continue
			}
			if p := forbiddenURL(browserURL(a.Value)); p != "" {
				s.Violate(fmt.Sprintf("%s-in-%s:%s", strings.TrimSuffix(p, ":"), t.Name+"@"+a.Name, construct), cv.Cfg.String(), doc, nil,
					fmt.Sprintf("<%s %s=%q> is a %s URL after browser normalisation", t.Name, a.Name, a.Value, p), "empty or harmless URL", string(out))
			}
		}
	}
	return out
}

var looseURLAttr = regexp.MustCompile(`(?i)(href|src)\s*=\s*("[^"]*"|'[^']*'|[^\s>]+)`)

// browserCommentLeaks returns, for every comment of out that a browser's tokenizer ends before the first "-->", the bytes
// between the browser's end of the comment and that "-->".
func browserCommentLeaks(out []byte) [][]byte {
	var leaks [][]byte
	for i := 0; ; {
		k := bytes.Index(out[i:], []byte("<!--"))
		if k < 0 {
			return leaks
		}
		start := i + k + 4
		strictEnd := bytes.Index(out[start:], []byte("-->"))
		if strictEnd < 0 {
			strictEnd = len(out) - start
		}
		body := out[start : start+strictEnd]
		be := -1
		switch {
		case bytes.HasPrefix(out[start:], []byte(">")):
			be = 1
		case bytes.HasPrefix(out[start:], []byte("->")):
			be = 2
		default:
			if j := bytes.Index(body, []byte("--!>")); j >= 0 {
				be = j + 4
			}
		}
		if be >= 0 && be < len(body) {
			leaks = append(leaks, body[be:])
		}
		i = start + strictEnd
		if i >= len(out) {
			return leaks
		}
	}
}

type urlConstruct struct {
	name string
	tmpl string
	exts []string
}

var c04Base = []string{"core", "gfm", "all+cjk"}

var urlConstructs = []urlConstruct{
	{"inline", "[a](§)", c04Base},
	{"inline-angle", "[a](<§>)", c04Base},
	{"inline-title", "[a](§ \"t\")", c04Base},
	{"image", "![a](§)", c04Base},
	{"image-angle", "![a](<§>)", c04Base},
	{"ref-full", "[a][r]\n\n[r]: §", c04Base},
	{"ref-collapsed", "[r][]\n\n[r]: §", c04Base},
	{"ref-shortcut", "[r]\n\n[r]: §", c04Base},
	{"ref-before", "[r]: §\n\n[r]", c04Base},
	{"ref-angle", "[r]\n\n[r]: <§>", c04Base},
	{"ref-image", "![r]\n\n[r]: § 't'", c04Base},
	{"autolink", "<§>", c04Base},
	{"text", "x § y", []string{"linkify", "gfm", "all+cjk"}},
	{"text-start", "§", []string{"linkify", "gfm", "all+cjk"}},
	{"in-table", "|[a](§)|\n|-|\n|<§>|", []string{"gfm", "all+cjk"}},
	{"in-footnote", "[^1]\n\n[^1]: [a](§) <§>", []string{"footnote", "all+cjk"}},
	{"in-heading", "# [a](§)", []string{"core+autoid+attr"}},
	{"in-image-alt", "![[a](§)](y)", c04Base},
}

// one spelling unit of "scheme:" with its alternatives (index 0 = the plain spelling)
func unitAlts(c byte) []string {
	if c == ':' {
		// the last five are doubly encoded: a reference whose own ampersand is written as a reference (they must stay inert
		// because the output's &amp;... decodes to the literal text "&colon;", not to a colon)
		return []string{":", "\\:", "&colon;", "&#58;", "&#x3a;", "&#x3A;", "&#0058;", "%3A", "%3a", "&amp;colon;", "&amp;#58;", "&#38;colon;", "&#x26;#x3a;", "&amp;amp;colon;"}
	}
	up := strings.ToUpper(string(c))
	return []string{string(c), up, fmt.Sprintf("&#%d;", c), fmt.Sprintf("&#x%x;", c), fmt.Sprintf("&#X%X;", up[0]), fmt.Sprintf("%%%02x", c), "\\" + string(c), fmt.Sprintf("&amp;#%d;", c), fmt.Sprintf("&#38;#x%x;", c)}
}

var gapAlts = []string{"", "&Tab;", "&NewLine;", "\t", "&#9;", "&#x0a;", "&#13;", "\\\n", "%09"}
var leadAlts = []string{"", " ", "\x01", "&#1;", "&#32;", "&nbsp;", "&Tab;", "\\ ", "%20", "\x7f"}

// spellings enumerates every spelling of scheme+rest with at most d non-default choices.
func spellings(scheme, rest string, d int, f func(string)) int {
	type slot struct{ alts []string }
	var slots []slot
	slots = append(slots, slot{leadAlts})
	for i := 0; i < len(scheme); i++ {
		if i > 0 {
			slots = append(slots, slot{gapAlts})
		}
		slots = append(slots, slot{unitAlts(scheme[i])})
	}
	n := 0
	choice := make([]int, len(slots))
	var rec func(i, left int)
	rec = func(i, left int) {
		if i == len(slots) {
			var b strings.Builder
			for k, sl := range slots {
				b.WriteString(sl.alts[choice[k]])
			}
			b.WriteString(rest)
			f(b.String())
			n++
			return
		}
		choice[i] = 0
		rec(i+1, left)
		if left > 0 {
			for a := 1; a < len(slots[i].alts); a++ {
				choice[i] = a
				rec(i+1, left-1)
			}
			choice[i] = 0
		}
	}
	rec(0, d)
	return n
}

var c04Schemes = [][2]string{
	{"javascript:", "alert(1)"},
	{"vbscript:", "x"},
	{"file:", "///etc/passwd"},
	{"data:", "text/html,x"},
	{"data:", "image/svg+xml;base64,AA"}, // allowed by goldmark: negative control, must never be reported
	{"data:", "image/png,AA"},            // no ';' after the media type: not on the allow-list
}

var aURL = []string{"javascript", "JAVASCRIPT", "java", "script", ":", "\\:", "&colon;", "&#58;", "&#x3a;", "&Tab;", "\t", " ", "%3A", "data", "image/png;", "text/html,", "vbscript", "file", "/", "x"}

func runC04(r *core.Run) {
	nw := core.Workers()
	d := core.Pick(r, 2, 2)
	// (1) obfuscation vectors
	for _, k := range urlConstructs {
		parts := strings.Split(k.tmpl, "§")
		var cfgs []core.Cfg
		for _, e := range k.exts {
			c := core.MustCfg(e)
			cfgs = append(cfgs, c)
			if !r.Quick() || e == k.exts[len(k.exts)-1] {
				c.XHTML = true
				cfgs = append(cfgs, c)
				c.XHTML, c.Explicit = false, true // safe mode spelled out as option("Unsafe", false)
				cfgs = append(cfgs, c)
			}
		}
		var urls []string
		for _, sc := range c04Schemes {
			spellings(sc[0], sc[1], d, func(u string) { urls = append(urls, u) })
		}
		s := r.Sub("obf-"+k.name, fmt.Sprintf("construct %q with § replaced by every spelling with ≤%d obfuscation edits (case flip, backslash, named/decimal/hex reference, %%XX, inserted &Tab;/&NewLine;/TAB, leading space/control) of %d scheme payloads, under %d safe configurations; every href/src of the tokenized output normalised like a browser; non-trivial = output has an href/src, distinct = output digest", k.tmpl, d, len(c04Schemes), len(cfgs)))
		s.Planned = int64(len(urls) * len(cfgs))
		s.Bound = fmt.Sprintf("edits≤%d spellings=%d cfgs=%d", d, len(urls), len(cfgs))
		core.ForEachIndex(len(urls), nw, func(w int) func(int) {
			cvs := make([]*core.Conv, len(cfgs))
			for i, c := range cfgs {
				cvs[i] = core.NewConv(c)
			}
			var doc []byte
			return func(i int) {
				doc = doc[:0]
				for j, p := range parts {
					if j > 0 {
						doc = append(doc, urls[i]...)
					}
					doc = append(doc, p...)
				}
				for _, cv := range cvs {
					out := c04Case(s, cv, doc, k.name)
					s.Evals.Add(1)
					if strings.Contains(string(out), "href=") || strings.Contains(string(out), "src=") {
						s.Distinct(core.Hash(out))
					}
				}
				if i%(len(urls)/6+1) == 0 {
					s.AddSample(core.Q(doc))
				}
			}
		}, r.Expired)
		s.States.Store(s.Evals.Load())
		s.Transitions.Store(s.Evals.Load())
		s.Done()
	}
	// (1b) one obfuscation edit combined with tails whose escaped form grows by every amount 0..14: a destination whose
	// resolved and raw forms relate in some special way (same length, same prefix...) must not slip past the predicate
	for _, k := range urlConstructs {
		parts := strings.Split(k.tmpl, "§")
		cfg := core.MustCfg(k.exts[len(k.exts)-1])
		var urls []string
		for _, sc := range c04Schemes[:4] {
			for g := 0; g <= 14; g++ {
				tail := sc[1] + strings.Repeat("\"", g/2)
				if g%2 == 1 {
					tail += "\\\"" // backslash-escaped quote: one byte shorter raw, two bytes longer escaped
				}
				spellings(sc[0], tail, 1, func(u string) { urls = append(urls, u) })
				if strings.Contains(k.tmpl, "<§>") {
					spellings(sc[0], sc[1]+strings.Repeat(" ", g/2)+"y", 1, func(u string) { urls = append(urls, u) })
				}
			}
		}
		s := r.Sub("obf-grow-"+k.name, fmt.Sprintf("construct %q with § replaced by every spelling with ≤1 obfuscation edit of 4 dangerous payloads followed by a tail whose URL-escaped form is 0..14 bytes longer than its source (double quotes, one escaped quote; spaces inside <...>), under %s; same oracle", k.tmpl, cfg))
		s.Planned = int64(len(urls))
		s.Bound = fmt.Sprintf("edits≤1 × growth 0..14: %d URLs", len(urls))
		core.ForEachIndex(len(urls), nw, func(w int) func(int) {
			cv := core.NewConv(cfg)
			var doc []byte
			return func(i int) {
				doc = doc[:0]
				for j, p := range parts {
					if j > 0 {
						doc = append(doc, urls[i]...)
					}
					doc = append(doc, p...)
				}
				out := c04Case(s, cv, doc, k.name)
				s.Evals.Add(1)
				if strings.Contains(string(out), "href=") || strings.Contains(string(out), "src=") {
					s.Distinct(core.Hash(out))
				}
				if i%(len(urls)/4+1) == 0 {
					s.AddSample(core.Q(doc))
				}
			}
		}, r.Expired)
		s.States.Store(s.Evals.Load())
		s.Transitions.Store(s.Evals.Load())
		s.Done()
	}
	// (1c) size ladders inside a reference and in front of the scheme: one letter (or the colon) of the scheme written as a
	// numeric reference with EVERY number of leading zeros 0..P, and EVERY number 0..P of leading spaces / control bytes
	// (any look-ahead window, digit limit or scratch buffer in the predicate is crossed at every phase)
	{
		maxP := core.Pick(r, 300, 1100)
		for _, k := range urlConstructs {
			parts := strings.Split(k.tmpl, "§")
			cfg := core.MustCfg(k.exts[len(k.exts)-1])
			var urls []string
			for _, sc := range c04Schemes[:4] {
				for _, pos := range []int{0, len(sc[0]) - 1} {
					c := sc[0][pos]
					for z := 0; z <= maxP; z++ {
						zeros := strings.Repeat("0", z)
						urls = append(urls,
							sc[0][:pos]+"&#x"+zeros+fmt.Sprintf("%x", c)+";"+sc[0][pos+1:]+sc[1],
							sc[0][:pos]+"&#X"+zeros+fmt.Sprintf("%X", c)+";"+sc[0][pos+1:]+sc[1],
							sc[0][:pos]+"&#"+zeros+fmt.Sprintf("%d", c)+";"+sc[0][pos+1:]+sc[1])
					}
				}
				if strings.Contains(k.tmpl, "<§>") { // spaces are legal inside <...> destinations only
					for z := 1; z <= maxP; z++ {
						urls = append(urls, strings.Repeat(" ", z)+sc[0]+sc[1], strings.Repeat("\x01", z)+sc[0]+sc[1])
					}
				}
			}
			s := r.Sub("obf-ladder-"+k.name, fmt.Sprintf("construct %q with § replaced by 4 dangerous payloads whose first letter or colon is a hexadecimal (x and X) or decimal reference padded with EVERY number 0..%d of leading zeros (and, inside <...>, prefixed by every number 1..%d of spaces or U+0001), under %s; same oracle", k.tmpl, maxP, maxP, cfg))
			s.Planned = int64(len(urls))
			s.Bound = fmt.Sprintf("padding 0..%d: %d URLs", maxP, len(urls))
			core.ForEachIndex(len(urls), nw, func(w int) func(int) {
				cv := core.NewConv(cfg)
				var doc []byte
				return func(i int) {
					doc = doc[:0]
					for j, p := range parts {
						if j > 0 {
							doc = append(doc, urls[i]...)
						}
						doc = append(doc, p...)
					}
					out := c04Case(s, cv, doc, k.name)
					s.Evals.Add(1)
					if strings.Contains(string(out), "href=") || strings.Contains(string(out), "src=") {
						s.Distinct(core.Hash(out))
					}
					if i%(len(urls)/4+1) == 0 {
						s.AddSample(core.Clip(core.Q(doc), 200))
					}
				}
			}, r.Expired)
			s.States.Store(s.Evals.Load())
			s.Transitions.Store(s.Evals.Load())
			s.Done()
		}
	}
	// (1d) every byte value in front of, inside and behind the scheme
	for _, k := range urlConstructs {
		cfg := core.MustCfg(k.exts[len(k.exts)-1])
		var docs [][]byte
		for _, sc := range c04Schemes[:4] {
			name := strings.TrimSuffix(sc[0], ":")
			for b := 0; b < 256; b++ {
				c := string([]byte{byte(b)})
				for _, u := range []string{c + sc[0] + sc[1], name[:2] + c + name[2:] + ":" + sc[1], name + c + ":" + sc[1], sc[0] + c + sc[1], c + c + sc[0] + sc[1], "\\" + c + sc[0] + sc[1]} {
					docs = append(docs, []byte(strings.ReplaceAll(k.tmpl, "§", u)))
				}
			}
		}
		docsSub(r, "byte-sweep-"+k.name, fmt.Sprintf("construct %q with every byte value 0..255 placed in front of (once, twice, behind a backslash), inside, at the end of and behind the scheme of 4 dangerous payloads, under %s; same oracle", k.tmpl, cfg),
			cfg, docs, func(s *core.Sub, cv *core.Conv, w []byte) { c04Case(s, cv, w, k.name) })
	}
	// (2) free URL words in every construct
	n := core.Pick(r, 3, 4)
	for _, k := range urlConstructs {
		parts := strings.Split(k.tmpl, "§")
		cfg := core.MustCfg(k.exts[len(k.exts)-1])
		s := r.Sub("urlwords-"+k.name, fmt.Sprintf("construct %q with § replaced by every word of ≤%d tokens over A_url=%q under %s; same oracle", k.tmpl, n, aURL, cfg))
		s.Planned = core.CountWords(len(aURL), n)
		s.Bound = fmt.Sprintf("N=%d |A|=%d", n, len(aURL))
		_, complete := core.ForEachWord(aURL, n, nw, func(w int) func([]byte) {
			cv := core.NewConv(cfg)
			var doc []byte
			var cnt int64
			return func(word []byte) {
				doc = doc[:0]
				for j, p := range parts {
					if j > 0 {
						doc = append(doc, word...)
					}
					doc = append(doc, p...)
				}
				out := c04Case(s, cv, doc, k.name)
				s.Evals.Add(1)
				if strings.Contains(string(out), "href=") || strings.Contains(string(out), "src=") {
					s.Distinct(core.Hash(out))
				}
				cnt++
				if w == 0 {
					s.MaybeSample(cnt, func() any { return core.Q(doc) })
				}
			}
		}, r.Expired)
		if !complete {
			s.Incomplete("internal deadline reached")
		}
		s.States.Store(s.Evals.Load())
		s.Transitions.Store(s.Evals.Load())
		s.Done()
	}
	// script URLs arriving as ready-made markup in every sink the renderer writes to: in safe mode the markup must come out
	// inert, so no href/src with such a URL may exist in the tokenized output (and the output must tokenize at all)
	{
		pays := []string{"<a href=\"javascript:alert(1)\">", "<img src=javascript:alert(1)>", "<a href='vbscript:x'>y</a>", "<a\nhref=\"javascript:x\">", "\"><a href=\"javascript:x\">", "<script src=\"file:///x\">",
			// the three places where a browser ends a comment before "-->"
			"x --!><a href=\"javascript:x\">y</a>", "><a href=\"javascript:x\">", "-><img src=javascript:x>",
			// the same markup spelled with character references (lower-case, legacy upper-case, decimal, hexadecimal)
			"&lt;a href=&quot;javascript:x&quot;&gt;", "&LT;a href=&QUOT;javascript:x&QUOT;&GT;y", "&#60;img src=&#34;vbscript:x&#34;&#62;", "&#x3c;a href=&#x22;javascript:x&#x22;&#x3E;", "&lt a href=&quot javascript:x&quot&gt"}
		shapes := []string{"§", "x\n§", "§\nx", "x\n§\ny", "§ §", "x\n§\n§\ny"}
		for _, cn := range []string{"core", "all+cjk+attr+autoid", "all+attr+autoid+xhtml+hardwraps"} {
			cfg := core.MustCfg(cn)
			var docs [][]byte
			for _, ctx := range sinkContexts {
				live := false
				for _, e := range ctx.exts {
					if e == "core" || strings.HasPrefix(cfg.Ext, "all") {
						live = true
					}
				}
				if !live || ctx.attr && !cfg.Attr {
					continue
				}
				for _, p := range pays {
					for _, sh := range shapes {
						docs = append(docs, []byte(strings.ReplaceAll(ctx.tmpl, "§", strings.ReplaceAll(sh, "§", p))))
					}
				}
			}
			docsSub(r, "markup-in-sinks/"+cn, fmt.Sprintf("each of the %d sink templates of the safe-markup check with § replaced by %d ready-made tags carrying script/file URLs in %d line shapes (alone, on a first, last and inner line, twice), under %s: output tokenizes and no href/src holds a forbidden URL", len(sinkContexts), len(pays), len(shapes), cn),
				cfg, docs, func(s *core.Sub, cv *core.Conv, w []byte) { c04Case(s, cv, w, "markup-in-sinks") })
		}
	}
	{
		toks := []string{"a", " ", "'", "\"", "--", "...", "<<", ">>", "<", ">", "\n", "a href=javascript:x", "img src=vbscript:y"}
		tn := core.Pick(r, 4, 5)
		for _, v := range core.TypographerVariants() {
			cfg := core.MustCfg("x:" + v)
			wordsSub(r, "typographer-substitutions/"+v, "the Typographer built with WithTypographicSubstitutions where one punctuation (or all) maps to nil / an empty value / a custom reference; words that spell tags with script URLs between the typographic sequences: output tokenizes and no href/src holds a forbidden URL",
				toks, tn, func(s *core.Sub, w int) func([]byte) uint64 {
					cv := core.NewConv(cfg)
					return func(word []byte) uint64 {
						out := c04Case(s, cv, word, "typographer-substitutions")
						s.Evals.Add(1)
						return core.Hash(out)
					}
				})
		}
	}
	// every ordered pair of URL-bearing documents on one instance: a verdict reached for one destination must not be
	// carried over to the next document's
	{
		docs, _, _ := c06URLDocs()
		for _, cn := range []string{"core", "all+cjk"} {
			cfg := core.MustCfg(cn)
			s := r.Sub("url-pairs/"+cn, fmt.Sprintf("every ordered pair of %d URL-bearing documents (harmless, every dangerous scheme, allowed and refused data: media types, other letter cases) converted one after the other on one new instance under %s: no href/src of either output holds a forbidden URL", len(docs), cn))
			s.Planned = int64(len(docs) * len(docs))
			s.Bound = fmt.Sprintf("%d × %d ordered pairs", len(docs), len(docs))
			core.ForEachIndex(len(docs), nw, func(w int) func(int) {
				return func(i int) {
					for j := range docs {
						cv := core.NewConv(cfg)
						c04Case(s, cv, docs[i], "url-pairs")
						c04Case(s, cv, docs[j], "url-pairs")
						s.Evals.Add(1)
					}
					s.Distinct(core.Hash(docs[i]))
					if i%(len(docs)/4+1) == 0 {
						s.AddSample([]string{core.Q(docs[i]), core.Q(docs[(i*7+1)%len(docs)])})
					}
				}
			}, r.Expired)
			s.States.Store(s.Evals.Load())
			s.Transitions.Store(2 * s.Evals.Load())
			s.Done()
		}
	}
}

func replayC04(r *core.Run, v *core.Violation) {
	cfg, err := core.ParseCfg(v.Cfg)
	if err != nil {
		fmt.Println(err)
		return
	}
	s := r.Sub(v.Sub, "replay of one input")
	c04Case(s, core.NewConv(cfg), v.Input(), strings.TrimPrefix(v.Sig[strings.LastIndex(v.Sig, ":")+1:], ""))
	s.Evals.Add(1)
	s.Done()
}
