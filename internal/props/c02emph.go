package props

import (
	"strings"
)

// Reference implementation of CommonMark 0.31.2 §6.2 (emphasis and strong emphasis) for inline content made only of
// letters, spaces, '.', '*' and '_'. It is the delimiter-run procedure of the specification's appendix written in its
// definitional form: every closer searches ALL earlier delimiters (no openers_bottom shortcut), the multiple-of-3 rule
// uses the lengths of the delimiter runs as written. Nothing here is shared with goldmark.

type emNode struct {
	kind              int // 0 text, 1 delimiter run, 2 em, 3 strong
	text              string
	ch                byte
	n, orig           int
	canOpen, canClose bool
	active            bool
	kids              []*emNode
	prev, next        *emNode
}

func emIsSpace(c byte) bool { return c == ' ' || c == '\n' || c == '\t' }
func emIsPunct(c byte) bool { return c == '.' || c == '*' || c == '_' }

// emphRefHTML returns the HTML of the inline content s (no leading or trailing blanks).
func emphRefHTML(s string) string {
	head := &emNode{kind: -1}
	tail := head
	add := func(n *emNode) {
		n.prev = tail
		tail.next = n
		tail = n
	}
	for i := 0; i < len(s); {
		c := s[i]
		if c != '*' && c != '_' {
			j := i
			for j < len(s) && s[j] != '*' && s[j] != '_' {
				j++
			}
			add(&emNode{kind: 0, text: s[i:j]})
			i = j
			continue
		}
		j := i
		for j < len(s) && s[j] == c {
			j++
		}
		before, after := byte(' '), byte(' ') // the beginning and the end of the line count as whitespace
		if i > 0 {
			before = s[i-1]
		}
		if j < len(s) {
			after = s[j]
		}
		left := !emIsSpace(after) && (!emIsPunct(after) || emIsSpace(before) || emIsPunct(before))
		right := !emIsSpace(before) && (!emIsPunct(before) || emIsSpace(after) || emIsPunct(after))
		d := &emNode{kind: 1, ch: c, n: j - i, orig: j - i, active: true}
		if c == '*' {
			d.canOpen, d.canClose = left, right
		} else {
			d.canOpen = left && (!right || emIsPunct(before))
			d.canClose = right && (!left || emIsPunct(after))
		}
		add(d)
		i = j
	}
	remove := func(n *emNode) {
		n.prev.next = n.next
		if n.next != nil {
			n.next.prev = n.prev
		}
	}
	nextDelim := func(n *emNode) *emNode {
		for n = n.next; n != nil; n = n.next {
			if n.kind == 1 && n.active {
				return n
			}
		}
		return nil
	}
	cur := nextDelim(head)
	for cur != nil {
		if !cur.canClose {
			cur = nextDelim(cur)
			continue
		}
		var opener *emNode
		for o := cur.prev; o != nil && o.kind != -1; o = o.prev {
			if o.kind != 1 || !o.active || o.ch != cur.ch || !o.canOpen {
				continue
			}
			if (cur.canOpen || o.canClose) && (o.orig+cur.orig)%3 == 0 && !(o.orig%3 == 0 && cur.orig%3 == 0) {
				continue
			}
			opener = o
			break
		}
		if opener == nil {
			old := cur
			cur = nextDelim(cur)
			if !old.canOpen {
				old.active = false
			}
			continue
		}
		use := 1
		if opener.n >= 2 && cur.n >= 2 {
			use = 2
		}
		em := &emNode{kind: 1 + use}
		for x := opener.next; x != cur; {
			nx := x.next
			if x.kind == 1 {
				x.active = false
			}
			em.kids = append(em.kids, x)
			x = nx
		}
		// splice: opener <-> em <-> cur
		opener.next, em.prev = em, opener
		em.next, cur.prev = cur, em
		opener.n -= use
		cur.n -= use
		if opener.n == 0 {
			opener.active = false
			remove(opener)
		}
		if cur.n == 0 {
			nx := nextDelim(cur)
			cur.active = false
			remove(cur)
			cur = nx
		}
	}
	var b strings.Builder
	var render func(n *emNode)
	render = func(n *emNode) {
		switch n.kind {
		case 0:
			b.WriteString(n.text)
		case 1:
			b.WriteString(strings.Repeat(string(n.ch), n.n))
		case 2, 3:
			tag := "em"
			if n.kind == 3 {
				tag = "strong"
			}
			b.WriteString("<" + tag + ">")
			for _, k := range n.kids {
				render(k)
			}
			b.WriteString("</" + tag + ">")
		}
	}
	for n := head.next; n != nil; n = n.next {
		render(n)
	}
	return b.String()
}

// emphPlain reports whether s consists only of the characters the reference implementation knows.
func emphPlain(s string) bool {
	for i := 0; i < len(s); i++ {
		c := s[i]
		if !(c >= 'a' && c <= 'z' || c >= 'A' && c <= 'Z' || c >= '0' && c <= '9' || c == ' ' || c == '.' || c == '*' || c == '_') {
			return false
		}
	}
	return s != "" && s[0] != ' ' && s[len(s)-1] != ' '
}

// emphParagraphSafe: s, written alone on a line, is a paragraph (not a list item, thematic break or indented code).
func emphParagraphSafe(s string) bool {
	if strings.HasPrefix(s, "* ") || s == "*" {
		return false
	}
	stars, unders, other := 0, 0, 0
	for i := 0; i < len(s); i++ {
		switch s[i] {
		case '*':
			stars++
		case '_':
			unders++
		case ' ':
		default:
			other++
		}
	}
	if other == 0 && (stars >= 3 && unders == 0 || unders >= 3 && stars == 0) {
		return false
	}
	// an ordered list marker needs ')' or '.' behind digits followed by a space
	for i := 0; i < len(s) && i < 10; i++ {
		if s[i] >= '0' && s[i] <= '9' {
			continue
		}
		if i > 0 && s[i] == '.' && (i+1 == len(s) || s[i+1] == ' ') {
			return false
		}
		break
	}
	return true
}
