package props

import (
	"strings"
)

// Reference implementation of the inline structure of CommonMark 0.31.2 for content made only of letters, digits, blanks,
// '.', '!', '*', '_', '[', ']', '`', '\' and inline link tails of the form "(dest)" with dest = optional '/' + lower-case
// letters directly behind a ']': code spans (§6.1), backslash escapes (§2.4), emphasis and strong emphasis (§6.2), inline
// links (§6.3) and images (§6.4) with their precedence rules. It is the procedure of the specification's appendix
// ("An algorithm for parsing nested emphasis and links") in its definitional form: every closer searches ALL earlier
// delimiters (no openers_bottom shortcut), the multiple-of-3 rule uses the lengths of the delimiter runs as written.
// Nothing here is shared with goldmark.

type emNode struct {
	kind              int // 0 text, 1 delimiter run, 2 em, 3 strong, 4 code, 5 bracket opener, 6 link, 7 image
	text              string
	ch                byte
	n, orig           int
	canOpen, canClose bool
	active            bool
	image             bool
	dest              string
	kids              []*emNode
	prev, next        *emNode
}

func emIsSpace(c byte) bool { return c == ' ' || c == '\n' || c == '\t' }
func emIsPunct(c byte) bool {
	return c >= '!' && c <= '/' || c >= ':' && c <= '@' || c >= '[' && c <= '`' || c >= '{' && c <= '~'
}

type inlineRef struct {
	head, tail *emNode
}

func (r *inlineRef) add(n *emNode) {
	n.prev = r.tail
	n.next = nil
	r.tail.next = n
	r.tail = n
}

func (r *inlineRef) remove(n *emNode) {
	n.prev.next = n.next
	if n.next != nil {
		n.next.prev = n.prev
	} else {
		r.tail = n.prev
	}
}

func (r *inlineRef) text(s string) {
	if r.tail.kind == 0 {
		r.tail.text += s
		return
	}
	r.add(&emNode{kind: 0, text: s})
}

// processEmphasis is "process emphasis" with the given stack bottom (nil = the whole list).
func (r *inlineRef) processEmphasis(bottom *emNode) {
	start := r.head
	if bottom != nil {
		start = bottom
	}
	nextDelim := func(n *emNode) *emNode {
		for n = n.next; n != nil; n = n.next {
			if n.kind == 1 && n.active {
				return n
			}
		}
		return nil
	}
	cur := nextDelim(start)
	for cur != nil {
		if !cur.canClose {
			cur = nextDelim(cur)
			continue
		}
		var opener *emNode
		for o := cur.prev; o != nil && o != start; o = o.prev {
			if o.kind != 1 || !o.active || o.ch != cur.ch || !o.canOpen {
				continue
			}
			if (cur.canOpen || o.canClose) && (o.orig+cur.orig)%3 == 0 && !(o.orig%3 == 0 && cur.orig%3 == 0) {
				continue
			}
			opener = o
			break
		}
		if opener == nil {
			old := cur
			cur = nextDelim(cur)
			if !old.canOpen {
				old.active = false
			}
			continue
		}
		use := 1
		if opener.n >= 2 && cur.n >= 2 {
			use = 2
		}
		em := &emNode{kind: 1 + use}
		for x := opener.next; x != cur; {
			nx := x.next
			if x.kind == 1 {
				x.active = false
			}
			em.kids = append(em.kids, x)
			x = nx
		}
		opener.next, em.prev = em, opener
		em.next, cur.prev = cur, em
		opener.n -= use
		cur.n -= use
		if opener.n == 0 {
			opener.active = false
			r.remove(opener)
		}
		if cur.n == 0 {
			nx := nextDelim(cur)
			cur.active = false
			r.remove(cur)
			cur = nx
		}
	}
	// all delimiters above the bottom leave the stack
	for n := start.next; n != nil; n = n.next {
		if n.kind == 1 {
			n.active = false
		}
	}
}

// inlineDest recognises "(dest)" at the head of s; dest = optional '/' followed by one or more lower-case letters.
func inlineDest(s string) (dest string, n int) {
	if len(s) < 3 || s[0] != '(' {
		return "", 0
	}
	i := 1
	if s[i] == '/' {
		i++
	}
	j := i
	for j < len(s) && s[j] >= 'a' && s[j] <= 'z' {
		j++
	}
	if j == i || j >= len(s) || s[j] != ')' {
		return "", 0
	}
	return s[1:j], j + 1
}

// emphRefHTML returns the HTML of the inline content s (no leading or trailing blanks, XHTML void syntax).
func emphRefHTML(s string) string {
	head := &emNode{kind: -1}
	r := &inlineRef{head: head, tail: head}
	for i := 0; i < len(s); {
		c := s[i]
		switch {
		case c == '\\' && i+1 < len(s) && emIsPunct(s[i+1]):
			r.add(&emNode{kind: 0, text: s[i+1 : i+2]}) // a separate node: never merged into a delimiter run
			i += 2
		case c == '&' && strings.HasPrefix(s[i:], "&amp;"):
			r.add(&emNode{kind: 0, text: "&"}) // a character reference: its own node, a literal ampersand
			i += 5
		case c == '`':
			j := i
			for j < len(s) && s[j] == '`' {
				j++
			}
			n := j - i
			// closing run of exactly n backticks
			k, found := j, -1
			for k < len(s) {
				if s[k] != '`' {
					k++
					continue
				}
				e := k
				for e < len(s) && s[e] == '`' {
					e++
				}
				if e-k == n {
					found = k
					break
				}
				k = e
			}
			if found < 0 {
				r.text(s[i:j])
				i = j
				continue
			}
			body := strings.ReplaceAll(s[j:found], "\n", " ")
			if len(body) >= 2 && body[0] == ' ' && body[len(body)-1] == ' ' && strings.Trim(body, " ") != "" {
				body = body[1 : len(body)-1]
			}
			r.add(&emNode{kind: 4, text: body})
			i = found + n
		case c == '*' || c == '_':
			j := i
			for j < len(s) && s[j] == c {
				j++
			}
			before, after := byte(' '), byte(' ') // the beginning and the end of the line count as whitespace
			if i > 0 {
				before = s[i-1]
			}
			if j < len(s) {
				after = s[j]
			}
			left := !emIsSpace(after) && (!emIsPunct(after) || emIsSpace(before) || emIsPunct(before))
			right := !emIsSpace(before) && (!emIsPunct(before) || emIsSpace(after) || emIsPunct(after))
			d := &emNode{kind: 1, ch: c, n: j - i, orig: j - i, active: true}
			if c == '*' {
				d.canOpen, d.canClose = left, right
			} else {
				d.canOpen = left && (!right || emIsPunct(before))
				d.canClose = right && (!left || emIsPunct(after))
			}
			r.add(d)
			i = j
		case c == '[':
			r.add(&emNode{kind: 5, active: true, text: "["})
			i++
		case c == '!' && i+1 < len(s) && s[i+1] == '[':
			r.add(&emNode{kind: 5, active: true, image: true, text: "!["})
			i += 2
		case c == ']':
			i++
			var opener *emNode
			for o := r.tail; o != nil && o.kind != -1; o = o.prev {
				if o.kind == 5 {
					opener = o
					break
				}
			}
			if opener == nil {
				r.text("]")
				continue
			}
			if !opener.active {
				opener.kind = 0 // stays as literal text, leaves the bracket stack
				r.text("]")
				continue
			}
			dest, n := inlineDest(s[i:])
			if n == 0 {
				opener.kind = 0
				r.text("]")
				continue
			}
			i += n
			r.processEmphasis(opener)
			ln := &emNode{kind: 6, dest: dest}
			if opener.image {
				ln.kind = 7
			}
			for x := opener.next; x != nil; x = x.next {
				ln.kids = append(ln.kids, x)
			}
			// replace opener and everything behind it by the link node
			r.tail = opener.prev
			r.tail.next = nil
			r.add(ln)
			if !opener.image {
				for o := ln.prev; o != nil && o.kind != -1; o = o.prev {
					if o.kind == 5 && !o.image {
						o.active = false
					}
				}
			}
		default:
			r.text(s[i : i+1])
			i++
		}
	}
	r.processEmphasis(nil)
	var b strings.Builder
	var render func(n *emNode)
	var plain func(n *emNode)
	plain = func(n *emNode) {
		switch n.kind {
		case 0, 4, 5:
			b.WriteString(strings.ReplaceAll(n.text, "&", "&amp;"))
		case 1:
			b.WriteString(strings.Repeat(string(n.ch), n.n))
		default:
			for _, k := range n.kids {
				plain(k)
			}
		}
	}
	render = func(n *emNode) {
		switch n.kind {
		case 0, 5:
			b.WriteString(strings.ReplaceAll(n.text, "&", "&amp;"))
		case 1:
			b.WriteString(strings.Repeat(string(n.ch), n.n))
		case 2, 3:
			tag := "em"
			if n.kind == 3 {
				tag = "strong"
			}
			b.WriteString("<" + tag + ">")
			for _, k := range n.kids {
				render(k)
			}
			b.WriteString("</" + tag + ">")
		case 4:
			b.WriteString("<code>" + strings.ReplaceAll(n.text, "&", "&amp;") + "</code>")
		case 6:
			b.WriteString("<a href=\"" + n.dest + "\">")
			for _, k := range n.kids {
				render(k)
			}
			b.WriteString("</a>")
		case 7:
			b.WriteString("<img src=\"" + n.dest + "\" alt=\"")
			for _, k := range n.kids {
				plain(k)
			}
			b.WriteString("\" />")
		}
	}
	for n := head.next; n != nil; n = n.next {
		render(n)
	}
	return b.String()
}

// emphPlain reports whether s consists only of the characters the reference implementation knows, parentheses only as
// inline link tails directly behind a ']'.
func emphPlain(s string) bool {
	for i := 0; i < len(s); i++ {
		c := s[i]
		switch {
		case c >= 'a' && c <= 'z' || c >= 'A' && c <= 'Z' || c >= '0' && c <= '9' || c == ' ' || c == '.' || c == '!' || c == '*' || c == '_' || c == '[' || c == ']' || c == '`' || c == '\\' || c == '&' || c == ';':
		case c == '(' && i > 0 && s[i-1] == ']':
			_, n := inlineDest(s[i:])
			if n == 0 {
				return false
			}
			i += n - 1
		default:
			return false
		}
	}
	return s != "" && s[0] != ' ' && s[len(s)-1] != ' '
}

// emphParagraphSafe: s, written alone on a line, is a paragraph (not a list item, thematic break, code fence or heading)
// and its inline content is s itself (no hard break at the end).
func emphParagraphSafe(s string) bool {
	if strings.HasPrefix(s, "* ") || s == "*" || strings.HasPrefix(s, "```") || strings.HasSuffix(s, "\\") {
		return false
	}
	stars, unders, other := 0, 0, 0
	for i := 0; i < len(s); i++ {
		switch s[i] {
		case '*':
			stars++
		case '_':
			unders++
		case ' ':
		default:
			other++
		}
	}
	if other == 0 && (stars >= 3 && unders == 0 || unders >= 3 && stars == 0) {
		return false
	}
	// an ordered list marker needs ')' or '.' behind digits followed by a space
	for i := 0; i < len(s) && i < 10; i++ {
		if s[i] >= '0' && s[i] <= '9' {
			continue
		}
		if i > 0 && s[i] == '.' && (i+1 == len(s) || s[i+1] == ' ') {
			return false
		}
		break
	}
	return true
}
