package props

import (
	"bytes"
	"fmt"
	"math"
	"sort"
	"strings"

	"github.com/yuin/goldmark"
	"github.com/yuin/goldmark/ast"
	"github.com/yuin/goldmark/parser"
	"github.com/yuin/goldmark/renderer"
	"github.com/yuin/goldmark/renderer/html"
	"github.com/yuin/goldmark/text"
	"github.com/yuin/goldmark/util"

	"verif/internal/core"
)

func init() {
	register(&Check{ID: "C20", QuickS: 240, ThorS: 2400, Run: runC20, Replay: replayC20})
}

// Node kinds of the probes. They are created after every built-in kind (package initialisation order), in this order:
// Low < Mid < Block < Inline < High. Only Mid ever gets a renderer function.
var (
	c20KindLow    = ast.NewNodeKind("VerifProbeLow")
	c20KindMid    = ast.NewNodeKind("VerifProbeMid")
	c20KindBlock  = ast.NewNodeKind("VerifProbeBlock")
	c20KindInline = ast.NewNodeKind("VerifProbeInline")
	c20KindHigh   = ast.NewNodeKind("VerifProbeHigh")
)

type c20Block struct {
	ast.BaseBlock
	kind ast.NodeKind
}

func (n *c20Block) Kind() ast.NodeKind            { return n.kind }
func (n *c20Block) Dump(source []byte, level int) { ast.DumpHelper(n, source, level, nil, nil) }

type c20Inline struct {
	ast.BaseInline
	kind ast.NodeKind
}

func (n *c20Inline) Kind() ast.NodeKind            { return n.kind }
func (n *c20Inline) Dump(source []byte, level int) { ast.DumpHelper(n, source, level, nil, nil) }

// ---- probe components; each appends its name to the shared log when invoked

type c20BP struct {
	name   string
	trig   []byte
	accept bool
	log    *[]string
}

func (b *c20BP) Trigger() []byte { return b.trig }
func (b *c20BP) Open(parent ast.Node, reader text.Reader, pc parser.Context) (ast.Node, parser.State) {
	*b.log = append(*b.log, b.name)
	if !b.accept {
		return nil, parser.NoChildren
	}
	_, seg := reader.PeekLine()
	reader.Advance(seg.Len() - 1)
	return &c20Block{kind: c20KindBlock}, parser.NoChildren
}
func (b *c20BP) Continue(node ast.Node, reader text.Reader, pc parser.Context) parser.State {
	return parser.Close
}
func (b *c20BP) Close(node ast.Node, reader text.Reader, pc parser.Context) {}
func (b *c20BP) CanInterruptParagraph() bool                                { return true }
func (b *c20BP) CanAcceptIndentedLine() bool                                { return false }

type c20IP struct {
	name   string
	accept bool
	wander bool // script 2: move the reader forward and then decline (the caller has to put it back)
	log    *[]string
}

// c20InlineTrig: the probes differ in their trigger sets (one has two triggers, the others one each), so that the
// per-trigger parser lists are built from overlapping registrations.
func c20InlineTrig(name string) []byte {
	switch strings.TrimSuffix(name, "'") {
	case "IT2":
		return []byte{'$'}
	case "IT3":
		return []byte{'%'}
	}
	return []byte{'$', '%'}
}

func (p *c20IP) Trigger() []byte { return c20InlineTrig(p.name) }
func (p *c20IP) Parse(parent ast.Node, block text.Reader, pc parser.Context) ast.Node {
	// the log records where the parser was started: every parser tried for one trigger byte must see that byte
	_, seg := block.PeekLine()
	*p.log = append(*p.log, fmt.Sprintf("%s@%d", p.name, seg.Start))
	if p.wander {
		block.Advance(1)
		if l, _ := block.PeekLine(); len(l) > 1 {
			block.Advance(1)
		}
		return nil
	}
	if !p.accept {
		return nil
	}
	block.Advance(1)
	return &c20Inline{kind: c20KindInline}
}

type c20PT struct {
	name  string
	strip bool // consumes every line of the paragraph but leaves the node where it is
	log   *[]string
}

func (p *c20PT) Transform(node *ast.Paragraph, reader text.Reader, pc parser.Context) {
	*p.log = append(*p.log, p.name)
	if p.strip {
		node.Lines().Clear()
	}
}

type c20AT struct {
	name string
	log  *[]string
}

func (p *c20AT) Transform(node *ast.Document, reader text.Reader, pc parser.Context) {
	*p.log = append(*p.log, p.name)
}

type c20NR struct {
	name  string
	kinds int // bit 1: Mid, bit 2: FencedCodeBlock
}

func (p *c20NR) RegisterFuncs(reg renderer.NodeRendererFuncRegisterer) {
	f := func(what string) renderer.NodeRendererFunc {
		return func(w util.BufWriter, source []byte, n ast.Node, entering bool) (ast.WalkStatus, error) {
			if entering {
				_, _ = w.WriteString("[" + p.name + " " + what + ">")
			} else {
				_, _ = w.WriteString("<" + p.name + " " + what + "]\n")
			}
			if p.name == "NR2" && what == "mid" {
				// this renderer handles its children itself: the nodes that follow must be unaffected
				return ast.WalkSkipChildren, nil
			}
			return ast.WalkContinue, nil
		}
	}
	if p.kinds&1 != 0 {
		reg.Register(c20KindMid, f("mid"))
	}
	if p.kinds&2 != 0 {
		reg.Register(ast.KindFencedCodeBlock, f("fenced"))
	}
}

type c20Ext struct{ f func(m goldmark.Markdown) }

func (e *c20Ext) Extend(m goldmark.Markdown) { e.f(m) }

// ---- one configuration of one group

type c20Comp struct {
	Name   string `json:"name"`
	Prio   int    `json:"priority"`
	Script int    `json:"script"`  // group-specific: accept flag, or renderer kind set
	Via    string `json:"channel"` // "options" or "extender"
}

type c20Cfg struct {
	Group string    `json:"group"`
	Comps []c20Comp `json:"registered_in_this_order"`
	Doc   string    `json:"document"`
	// Replace: "first" / "last" = goldmark.WithParser(a parser built from the defaults) and goldmark.WithRenderer(a renderer
	// built from the default node renderer) are given before / behind the other options of goldmark.New
	Replace string `json:"replace_parser_and_renderer,omitempty"`
	// Trig: the trigger byte of the BT* block probes (0 = '$'); 0xE2 is the lead byte of a non-ASCII character
	Trig byte `json:"block_trigger_byte,omitempty"`
	_       struct{}
}

func (c c20Cfg) describe() []string {
	out := []string{"group " + c.Group + ", document " + core.Q([]byte(c.Doc))}
	if c.Replace != "" {
		out = append(out, "goldmark.WithParser(parser.NewParser(defaults...)) and goldmark.WithRenderer(renderer.NewRenderer(default html renderer)) given "+c.Replace+" among the options of goldmark.New")
	}
	for _, k := range c.Comps {
		out = append(out, fmt.Sprintf("register %s priority=%d script=%d via %s", k.Name, k.Prio, k.Script, k.Via))
	}
	return out
}

// build creates the Markdown instance with the probes registered in the listed order through the listed channels.
func (c c20Cfg) build(log *[]string) goldmark.Markdown {
	var opts []goldmark.Option
	// a probe name that occurs twice is ONE instance registered twice (with two priorities)
	inst := map[string]any{}
	get := func(name string, mk func() any) any {
		if v, ok := inst[name]; ok {
			return v
		}
		v := mk()
		inst[name] = v
		return v
	}
	for _, k := range c.Comps {
		k := k
		var po parser.Option
		var ro renderer.Option
		switch c.Group {
		case "block":
			var trig []byte
			if strings.HasPrefix(k.Name, "BT") {
				trig = []byte{'$'}
				if c.Trig != 0 {
					trig = []byte{c.Trig}
				}
			}
			po = parser.WithBlockParsers(util.Prioritized(get(k.Name, func() any { return &c20BP{name: k.Name, trig: trig, accept: k.Script == 1, log: log} }), k.Prio))
		case "inline":
			po = parser.WithInlineParsers(util.Prioritized(get(k.Name, func() any { return &c20IP{name: k.Name, accept: k.Script == 1, wander: k.Script == 2, log: log} }), k.Prio))
		case "paragraph":
			po = parser.WithParagraphTransformers(util.Prioritized(get(k.Name, func() any { return &c20PT{name: k.Name, strip: k.Script == 1, log: log} }), k.Prio))
		case "ast":
			po = parser.WithASTTransformers(util.Prioritized(get(k.Name, func() any { return &c20AT{name: k.Name, log: log} }), k.Prio))
		case "render":
			ro = renderer.WithNodeRenderers(util.Prioritized(&c20NR{name: k.Name, kinds: k.Script}, k.Prio))
		}
		switch {
		case k.Via == "extender" && po != nil:
			o := po
			opts = append(opts, goldmark.WithExtensions(&c20Ext{func(m goldmark.Markdown) { m.Parser().AddOptions(o) }}))
		case k.Via == "extender":
			o := ro
			opts = append(opts, goldmark.WithExtensions(&c20Ext{func(m goldmark.Markdown) { m.Renderer().AddOptions(o) }}))
		case po != nil:
			opts = append(opts, goldmark.WithParserOptions(po))
		default:
			opts = append(opts, goldmark.WithRendererOptions(ro))
		}
	}
	if c.Replace != "" {
		rep := []goldmark.Option{
			goldmark.WithParser(parser.NewParser(parser.WithBlockParsers(parser.DefaultBlockParsers()...), parser.WithInlineParsers(parser.DefaultInlineParsers()...), parser.WithParagraphTransformers(parser.DefaultParagraphTransformers()...))),
			goldmark.WithRenderer(renderer.NewRenderer(renderer.WithNodeRenderers(util.Prioritized(html.NewRenderer(), 1000)))),
		}
		if c.Replace == "first" {
			opts = append(rep, opts...)
		} else {
			opts = append(opts, rep...)
		}
	}
	return goldmark.New(opts...)
}

// ---- the model: what the statement says must happen

func c20Sorted(comps []c20Comp) []c20Comp {
	s := append([]c20Comp{}, comps...)
	sort.Slice(s, func(i, j int) bool { return s[i].Prio < s[j].Prio })
	return s
}

// modelBlock predicts the Open log for single-level documents: triggered parsers in ascending priority, then the
// trigger-less ones in ascending priority (the built-in trigger-less parsers are the indented-code parser at 500, which
// declines unindented lines, and the paragraph parser at 1000, which accepts any line but cannot interrupt a paragraph);
// the first to accept wins.
func modelBlock(c c20Cfg) []string {
	var trig, free []c20Comp
	for _, k := range c20Sorted(c.Comps) {
		if strings.HasPrefix(k.Name, "BT") {
			trig = append(trig, k)
		} else {
			free = append(free, k)
		}
	}
	var log []string
	inPara := false
	for _, line := range strings.SplitAfter(c.Doc, "\n") {
		if line == "" {
			continue
		}
		if strings.TrimSpace(line) == "" {
			inPara = false
			continue
		}
		var cands []c20Comp
		tb := byte('$')
		if c.Trig != 0 {
			tb = c.Trig
		}
		if line[0] == tb {
			cands = append(cands, trig...)
		}
		// trigger-less parsers in ascending priority, the built-in paragraph parser among them at 1000
		paraDone := false
		for _, k := range free {
			if !paraDone && k.Prio > 1000 {
				cands = append(cands, c20Comp{Name: "PARAGRAPH", Prio: 1000})
				paraDone = true
			}
			cands = append(cands, k)
		}
		if !paraDone {
			cands = append(cands, c20Comp{Name: "PARAGRAPH", Prio: 1000})
		}
		opened := false
		for _, k := range cands {
			if k.Name == "PARAGRAPH" {
				if inPara {
					continue // cannot interrupt a paragraph
				}
				inPara, opened = true, true
				break
			}
			log = append(log, k.Name)
			if k.Script == 1 {
				opened, inPara = true, false
				break
			}
		}
		_ = opened // nothing opened: the line continues the open paragraph
	}
	return log
}

// modelInline predicts the Parse log: for every unescaped '$' the inline parsers for that trigger in ascending priority
// until the first accepts.
func modelInline(c c20Cfg) []string {
	var log []string
	s := c20Sorted(c.Comps)
	esc := false
	for i := 0; i < len(c.Doc); i++ {
		ch := c.Doc[i]
		if esc {
			esc = false
			continue
		}
		if ch == '\\' {
			esc = true
			continue
		}
		if ch == '$' || ch == '%' {
			for _, k := range s {
				if bytes.IndexByte(c20InlineTrig(k.Name), ch) < 0 {
					continue
				}
				log = append(log, fmt.Sprintf("%s@%d", k.Name, i))
				if k.Script == 1 {
					break
				}
			}
		}
	}
	return log
}

// modelParagraph predicts the Transform log: per paragraph in document order, transformers in ascending priority; the
// built-in link-reference transformer sits at 100 and removes a paragraph that consists of definitions only, after
// which no further transformer sees it.
func modelParagraph(c c20Cfg) []string {
	var log []string
	s := c20Sorted(c.Comps)
	for _, para := range strings.Split(strings.TrimSpace(c.Doc), "\n\n") {
		removed := strings.HasPrefix(para, "[") && strings.Contains(para, "]: ")
		for _, k := range s {
			if k.Prio > 100 && removed {
				break
			}
			log = append(log, k.Name)
			if k.Script == 1 && k.Prio < 100 {
				// the probe consumed every line: the built-in transformer at 100 then replaces the empty paragraph, which ends
				// the chain exactly as for a paragraph made of definitions only
				removed = true
			}
		}
	}
	return log
}

func modelAST(c c20Cfg) []string {
	var log []string
	for _, k := range c20Sorted(c.Comps) {
		log = append(log, k.Name)
	}
	return log
}

// modelRender predicts the output for the probe tree (see c20RenderTree): for each kind the function registered with the
// smallest priority wins (the built-in HTML renderer sits at 1000); kinds without a function are skipped and their
// children rendered.
func modelRender(c c20Cfg) string {
	win := func(bit int) string {
		best, name := 0, ""
		for _, k := range c.Comps {
			if k.Script&bit != 0 && (name == "" || k.Prio < best) {
				best, name = k.Prio, k.Name
			}
		}
		if bit == 2 && name != "" && best > 1000 {
			return "" // the built-in HTML renderer (1000) has the smaller value
		}
		return name
	}
	var b strings.Builder
	if w := win(2); w != "" {
		b.WriteString("[" + w + " fenced><" + w + " fenced]\n")
	} else {
		b.WriteString("<pre><code>x\n</code></pre>\n")
	}
	b.WriteString("<p>low-child</p>\n")
	if w := win(1); w == "NR2" {
		b.WriteString("[NR2 mid><NR2 mid]\n") // NR2 skips the children of the node it renders
	} else if w != "" {
		b.WriteString("[" + w + " mid><p>mid-child</p>\n<" + w + " mid]\n")
	} else {
		b.WriteString("<p>mid-child</p>\n")
	}
	b.WriteString("<p>high-child</p>\n<p>tail <!-- raw HTML omitted -->INy<!-- raw HTML omitted --> z</p>\n")
	return b.String()
}

const c20RenderDoc = "```\nx\n```\n\nlow-child\n\nmid-child\n\nhigh-child\n\ntail <b>y</b> z\n"

// c20RenderTree parses c20RenderDoc and wraps three of its paragraphs into probe nodes of kinds Low, Mid and High.
func c20RenderTree(md goldmark.Markdown) ast.Node {
	doc := md.Parser().Parse(text.NewReader([]byte(c20RenderDoc)))
	var paras []ast.Node
	for c := doc.FirstChild(); c != nil; c = c.NextSibling() {
		if c.Kind() == ast.KindParagraph {
			paras = append(paras, c)
		}
	}
	// an inline node of a kind without renderer function, holding the text "IN", directly behind the raw HTML node <b>
	// (whose built-in renderer answers WalkSkipChildren)
	if tail := paras[len(paras)-1]; tail != nil {
		for c := tail.FirstChild(); c != nil; c = c.NextSibling() {
			if c.Kind() == ast.KindRawHTML {
				in := &c20Inline{kind: c20KindInline}
				in.AppendChild(in, ast.NewString([]byte("IN")))
				tail.InsertAfter(tail, c, in)
				break
			}
		}
	}
	for i, k := range []ast.NodeKind{c20KindLow, c20KindMid, c20KindHigh} {
		w := &c20Block{kind: k}
		doc.ReplaceChild(doc, paras[i], w)
		w.AppendChild(w, paras[i])
	}
	return doc
}

// ---- enumeration of configurations

// c20Enum calls f for every configuration of a group: every subset of names (non-empty unless allowEmpty), every injective
// assignment of priorities from pool, every registration order, every channel pattern in {all options, all extender,
// alternating} and every script vector in [0,scriptN)^k.
func c20Enum(group string, names []string, pool []int, scriptN int, allowEmpty bool, f func(c c20Cfg)) {
	n := len(names)
	for mask := 0; mask < 1<<n; mask++ {
		var sel []string
		for i := 0; i < n; i++ {
			if mask&(1<<i) != 0 {
				sel = append(sel, names[i])
			}
		}
		if len(sel) == 0 && !allowEmpty {
			continue
		}
		k := len(sel)
		// injective priority assignments
		prio := make([]int, k)
		used := make([]bool, len(pool))
		var assign func(i int)
		perms := c20Perms(k)
		assign = func(i int) {
			if i == k {
				for _, perm := range perms {
					nch := 3
					if k == 0 {
						nch = 1
					}
					for ch := 0; ch < nch; ch++ {
						total := 1
						for j := 0; j < k; j++ {
							total *= scriptN
						}
						for sv := 0; sv < total; sv++ {
							cfg := c20Cfg{Group: group}
							x := sv
							scripts := make([]int, k)
							for j := 0; j < k; j++ {
								scripts[j] = x % scriptN
								x /= scriptN
							}
							for pos, idx := range perm {
								via := "options"
								if ch == 1 || (ch == 2 && pos%2 == 1) {
									via = "extender"
								}
								sc := scripts[idx]
								if group == "render" {
									sc++ // kind sets 1..3
								}
								cfg.Comps = append(cfg.Comps, c20Comp{Name: sel[idx], Prio: prio[idx], Script: sc, Via: via})
							}
							f(cfg)
						}
					}
				}
				return
			}
			for p := range pool {
				if used[p] {
					continue
				}
				used[p] = true
				prio[i] = pool[p]
				assign(i + 1)
				used[p] = false
			}
		}
		assign(0)
	}
}

func c20Perms(k int) [][]int {
	if k == 0 {
		return [][]int{{}}
	}
	var out [][]int
	var rec func(cur []int, used int)
	rec = func(cur []int, used int) {
		if len(cur) == k {
			out = append(out, append([]int{}, cur...))
			return
		}
		for i := 0; i < k; i++ {
			if used&(1<<i) == 0 {
				rec(append(cur, i), used|1<<i)
			}
		}
	}
	rec(nil, 0)
	return out
}

// c20Run executes one configuration on one document and compares with the model.
func c20Run(s *core.Sub, c c20Cfg) {
	var log []string
	var got, want string
	pan := func() (pan any) {
		defer func() {
			if p := recover(); p != nil {
				pan = fmt.Sprintf("%v at %s", p, core.PanicSite())
			}
		}()
		md := c.build(&log)
		switch c.Group {
		case "render":
			var buf bytes.Buffer
			doc := c20RenderTree(md)
			if err := md.Renderer().Render(&buf, []byte(c20RenderDoc), doc); err != nil {
				panic(fmt.Sprint("Render returned error: ", err))
			}
			got = buf.String()
		default:
			md.Parser().Parse(text.NewReader([]byte(c.Doc)))
			got = strings.Join(log, " ")
		}
		return nil
	}()
	switch c.Group {
	case "block":
		want = strings.Join(modelBlock(c), " ")
	case "inline":
		want = strings.Join(modelInline(c), " ")
	case "paragraph":
		want = strings.Join(modelParagraph(c), " ")
	case "ast":
		want = strings.Join(modelAST(c), " ")
	case "render":
		want = modelRender(c)
	}
	s.Evals.Add(1)
	if pan != nil {
		s.Violate("panic:"+c.Group, "", nil, c.describe(), fmt.Sprint(pan), want, "panic")
		return
	}
	if got != want {
		s.Violate("order-differs-from-priority-model:"+c.Group, "", nil, c.describe(), fmt.Sprintf("observed %q, priority model predicts %q", got, want), want, got)
	}
	s.Distinct(core.Hash([]byte(c.Group + "|" + got)))
}

func runC20(r *core.Run) {
	runC20Shared(r)
	pool := core.Pick(r, []int{50, 250, 550, 1050}, []int{50, 250, 550, 950, 1050})
	type group struct {
		name    string
		names   []string
		scriptN int
		docs    []string
		rule    string
	}
	groups := []group{
		{"block", core.Pick(r, []string{"BT1", "BT2", "BF1", "BF2"}, []string{"BT1", "BT2", "BF1", "BF2", "BF3"}), 2,
			[]string{"$x\n", "para\n$x\n", "plain\n", "$x\n\n$y\nz\n", "plain\n\n$x\n"},
			"block parsers BT* (trigger '$') and BF* (no trigger), each scripted to accept or decline; the Open log must equal: per line, triggered parsers ascending, then trigger-less parsers ascending merged with the built-in paragraph parser (1000), first acceptor wins"},
		{"inline", core.Pick(r, []string{"IT1", "IT2", "IT3"}, []string{"IT1", "IT2", "IT3", "IT4"}), 3,
			[]string{"a$b\n", "$\n", "$$ \\$ $\n", "a\n$\n", "a$b%c\n", "%$%\n"},
			"inline parsers IT1/IT4 on triggers '$' and '%', IT2 on '$', IT3 on '%', each scripted to accept (consume one byte), decline, or move the reader forward and then decline; the Parse log (parser name and the source offset it was started at) must equal: per unescaped trigger byte, the parsers registered for that byte in ascending priority, each started at that byte, until the first accepts"},
		{"paragraph", []string{"PT1", "PT2", "PT3"}, 2,
			[]string{"a\n", "a\n\nb\n", "[l]: /u\n\nb\n"},
			"paragraph transformers, each scripted to leave the paragraph alone or to consume all of its lines (the node stays attached); the Transform log must equal: per paragraph, ascending priority, the built-in reference-definition transformer at 100 ending the chain for a paragraph it removes"},
		{"ast", []string{"AT1", "AT2", "AT3"}, 1, []string{"a\n"}, "AST transformers; the Transform log must be ascending by priority"},
		{"render", []string{"NR1", "NR2", "NR3"}, 3, []string{c20RenderDoc},
			"node renderers registering a function for the probe kind Mid and/or for FencedCodeBlock (built-in HTML renderer at 1000); the output of a tree holding a fenced code block and three wrapper nodes of kinds Low < Mid < High (High above every registered kind; Low and High never registered) must show the smallest-priority function for each kind, and wrappers without a function skipped with their children rendered"},
	}
	type run struct {
		g      group
		pool   []int
		suffix string
	}
	var runs []run
	extreme := []int{math.MinInt, -7, 550, math.MaxInt}
	for _, g := range groups {
		runs = append(runs, run{g, pool, ""})
		ge := g
		if len(ge.names) > 3 {
			ge.names = ge.names[:3]
			if g.name == "block" {
				ge.names = []string{"BT1", "BF1", "BF2"}
			}
		}
		runs = append(runs, run{ge, extreme, "-extreme-priorities"})
	}
	// the same instance registered twice, with two priorities: each registration counts
	for _, g := range groups {
		gd := g
		switch g.name {
		case "block":
			gd.names = []string{"BT1", "BF1", "BT1", "BF1"}
		case "inline":
			gd.names = []string{"IT1", "IT2", "IT1"}
		case "paragraph":
			gd.names = []string{"PT1", "PT2", "PT1"}
		case "ast":
			gd.names = []string{"AT1", "AT2", "AT1"}
		default:
			continue
		}
		runs = append(runs, run{gd, pool, "-same-instance-twice"})
	}
	for _, rn := range runs {
		g, pool := rn.g, rn.pool
		s := r.Sub("priority-"+g.name+rn.suffix, fmt.Sprintf("every subset of the probes %v × every injective priority assignment from %v × every registration order × channel pattern {all via WithParserOptions/WithRendererOptions, all via an Extender calling AddOptions (also with goldmark.WithParser / WithRenderer replacing parser and renderer as the first or the last option of goldmark.New), alternating} × every script vector × documents %q: %s", g.names, pool, g.docs, g.rule))
		var cfgs []c20Cfg
		c20Enum(g.name, g.names, pool, g.scriptN, g.name == "render", func(c c20Cfg) {
			if rn.suffix == "-same-instance-twice" {
				// one instance has one script: the one of its first registration
				first := map[string]int{}
				for i, k := range c.Comps {
					if sc, ok := first[k.Name]; ok {
						c.Comps[i].Script = sc
					} else {
						first[k.Name] = k.Script
					}
				}
			}
			cfgs = append(cfgs, c)
		})
		s.Bound = fmt.Sprintf("probes≤%d priorities=%v configurations=%d documents=%d", len(g.names), pool, len(cfgs), len(g.docs))
		complete := core.ForEachIndex(len(cfgs), core.Workers(), func(w int) func(int) {
			return func(i int) {
				for _, d := range g.docs {
					c := cfgs[i]
					c.Doc = d
					c20Run(s, c)
					if g.name == "block" && rn.suffix == "" && strings.Contains(d, "$") {
						// the same with a trigger byte outside ASCII (the lead byte of U+2192)
						c3 := c
						c3.Trig = 0xE2
						c3.Doc = strings.ReplaceAll(d, "$", "\u2192")
						c20Run(s, c3)
					}
					// probes that arrive through Extenders are registered after all options of goldmark.New have been applied:
					// a parser / renderer replaced by WithParser / WithRenderer anywhere in the option list must still get them
					allExt := len(c.Comps) > 0
					for _, k := range c.Comps {
						allExt = allExt && k.Via == "extender"
					}
					if allExt && rn.suffix == "" {
						for _, rp := range []string{"first", "last"} {
							c2 := c
							c2.Replace = rp
							c20Run(s, c2)
						}
					}
					strips := false
					for _, k := range c.Comps {
						strips = strips || (g.name == "paragraph" && k.Script == 1)
					}
					if rn.suffix == "" && !strips && c.Comps != nil && c.Comps[0].Via == "options" && (len(c.Comps) < 2 || c.Comps[1].Via == "options") {
						c20Shared(s, c)
					}
				}
				if i%(len(cfgs)/4+1) == 0 {
					s.AddSample(cfgs[i].describe())
				}
			}
		}, r.Expired)
		if !complete {
			s.Incomplete("internal deadline reached")
		}
		s.States.Store(int64(len(cfgs)))
		s.Transitions.Store(s.Evals.Load())
		s.Done()
	}
}

func replayC20(r *core.Run, v *core.Violation) {
	fmt.Println("C20 replays: the replay file lists the registrations (order, priority, channel, script) and the document; the enumeration is deterministic, re-run ./run.sh C20 quick")
	s := r.Sub(v.Sub, "replay")
	s.Evals.Add(1)
	s.Done()
}

// ---- one option value shared by two instances

// c20Shared builds two instances from ONE parser option holding all but the last component (the option's slice has spare
// capacity, as a caller's append-built slice usually has), then registers the last component on the first instance and a
// twin of it, with another priority, on the second; both instances are built before either parses. Each instance's log
// must be the priority model of its own registrations.
func c20Shared(s *core.Sub, c c20Cfg) {
	if len(c.Comps) < 2 || c.Group == "render" {
		return
	}
	n := len(c.Comps)
	var logA, logB []string
	mk := func(k c20Comp, log *[]string) util.PrioritizedValue {
		switch c.Group {
		case "block":
			var trig []byte
			if strings.HasPrefix(k.Name, "BT") {
				trig = []byte{'$'}
			}
			return util.Prioritized(&c20BP{name: k.Name, trig: trig, accept: k.Script == 1, log: log}, k.Prio)
		case "inline":
			return util.Prioritized(&c20IP{name: k.Name, accept: k.Script == 1, wander: k.Script == 2, log: log}, k.Prio)
		case "paragraph":
			return util.Prioritized(&c20PT{name: k.Name, strip: k.Script == 1, log: log}, k.Prio)
		}
		return util.Prioritized(&c20AT{name: k.Name, log: log}, k.Prio)
	}
	wrap := func(vals ...util.PrioritizedValue) parser.Option {
		switch c.Group {
		case "block":
			return parser.WithBlockParsers(vals...)
		case "inline":
			return parser.WithInlineParsers(vals...)
		case "paragraph":
			return parser.WithParagraphTransformers(vals...)
		}
		return parser.WithASTTransformers(vals...)
	}
	// the shared components log into whichever instance is parsing: a switchable sink
	var cur *[]string
	sink := []string{}
	cur = &sink
	sharedVals := make([]util.PrioritizedValue, 0, 16)
	for _, k := range c.Comps[:n-1] {
		kk := k
		var v util.PrioritizedValue
		switch c.Group {
		case "block":
			var trig []byte
			if strings.HasPrefix(kk.Name, "BT") {
				trig = []byte{'$'}
			}
			v = util.Prioritized(&c20BPInd{c20BP{name: kk.Name, trig: trig, accept: kk.Script == 1}, &cur}, kk.Prio)
		case "inline":
			v = util.Prioritized(&c20IPInd{c20IP{name: kk.Name, accept: kk.Script == 1, wander: kk.Script == 2}, &cur}, kk.Prio)
		case "paragraph":
			v = util.Prioritized(&c20PTInd{kk.Name, &cur}, kk.Prio)
		default:
			v = util.Prioritized(&c20ATInd{kk.Name, &cur}, kk.Prio)
		}
		sharedVals = append(sharedVals, v)
	}
	shared := wrap(sharedVals...)
	last := c.Comps[n-1]
	twin := last
	twin.Name = last.Name + "'"
	twin.Prio = last.Prio + 7
	for _, k := range c.Comps[:n-1] {
		if k.Prio == twin.Prio {
			twin.Prio += 3
		}
	}
	var got [2]string
	pan := func() (pan any) {
		defer func() {
			if p := recover(); p != nil {
				pan = fmt.Sprintf("%v at %s", p, core.PanicSite())
			}
		}()
		mdA := goldmark.New(goldmark.WithParserOptions(shared, wrap(mk(last, &logA))))
		mdB := goldmark.New(goldmark.WithParserOptions(shared, wrap(mk(twin, &logB))))
		cur = &logA
		mdA.Parser().Parse(text.NewReader([]byte(c.Doc)))
		cur = &logB
		mdB.Parser().Parse(text.NewReader([]byte(c.Doc)))
		return nil
	}()
	got[0], got[1] = strings.Join(logA, " "), strings.Join(logB, " ")
	s.Evals.Add(2)
	if pan != nil {
		s.Violate("panic:shared-option:"+c.Group, "", nil, c.describe(), fmt.Sprint(pan), "", "panic")
		return
	}
	cb := c
	cb.Comps = append(append([]c20Comp{}, c.Comps[:n-1]...), twin)
	var want [2]string
	for i, cc := range []c20Cfg{c, cb} {
		switch c.Group {
		case "block":
			want[i] = strings.Join(modelBlock(cc), " ")
		case "inline":
			want[i] = strings.Join(modelInline(cc), " ")
		case "paragraph":
			want[i] = strings.Join(modelParagraph(cc), " ")
		default:
			want[i] = strings.Join(modelAST(cc), " ")
		}
	}
	for i := range got {
		if got[i] != want[i] {
			s.Violate("shared-option-instances-interfere:"+c.Group, "", nil, append(c.describe(), "all but the last registration come from ONE option value (slice with spare capacity) applied to two instances; the last one is registered on instance A, a twin "+twin.Name+" with priority "+fmt.Sprint(twin.Prio)+" on instance B; both are built before either parses"),
				fmt.Sprintf("instance %c observed %q, priority model predicts %q", 'A'+i, got[i], want[i]), want[i], got[i])
			return
		}
	}
	s.Distinct(core.Hash([]byte(c.Group + "|shared|" + got[0] + "|" + got[1])))
}

// probe components that log through an indirection (the log of whichever instance is parsing)
type c20BPInd struct {
	c20BP
	cur **[]string
}

func (b *c20BPInd) Open(parent ast.Node, reader text.Reader, pc parser.Context) (ast.Node, parser.State) {
	b.c20BP.log = *b.cur
	return b.c20BP.Open(parent, reader, pc)
}

type c20IPInd struct {
	c20IP
	cur **[]string
}

func (p *c20IPInd) Parse(parent ast.Node, block text.Reader, pc parser.Context) ast.Node {
	p.c20IP.log = *p.cur
	return p.c20IP.Parse(parent, block, pc)
}

type c20PTInd struct {
	name string
	cur  **[]string
}

func (p *c20PTInd) Transform(node *ast.Paragraph, reader text.Reader, pc parser.Context) {
	**p.cur = append(**p.cur, p.name)
}

type c20ATInd struct {
	name string
	cur  **[]string
}

func (p *c20ATInd) Transform(node *ast.Document, reader text.Reader, pc parser.Context) {
	**p.cur = append(**p.cur, p.name)
}
