package props

import (
	"bytes"
	"fmt"
	"strings"

	"github.com/yuin/goldmark/ast"
	"github.com/yuin/goldmark/renderer/html"
	"github.com/yuin/goldmark/util"

	"verif/internal/core"
	"verif/internal/strict"
)

func init() {
	register(&Check{ID: "C10", QuickS: 200, ThorS: 1800, Run: runC10, Replay: replayC10})
}

var (
	voidX   = []byte(" />")
	voidH   = []byte(">")
	brH     = []byte("<br>\n")
	brX     = []byte("<br />\n")
	omitted = []byte("<!-- raw HTML omitted -->")
	hrefE   = []byte(`href=""`)
	srcE    = []byte(`src=""`)
)

// countSoftBreaks counts Text nodes with a soft line break that the HTML renderer writes as a line break
// (i.e. not flattened into an image's alt attribute).
func countSoftBreaks(doc ast.Node) int {
	n := 0
	var rec func(x ast.Node, inImage bool)
	rec = func(x ast.Node, inImage bool) {
		if t, ok := x.(*ast.Text); ok && t.SoftLineBreak() && !inImage {
			n++
		}
		if x.Kind() == ast.KindImage {
			inImage = true
		}
		for c := x.FirstChild(); c != nil; c = c.NextSibling() {
			rec(c, inImage)
		}
	}
	rec(doc, false)
	return n
}

// hardWrapWalk checks that h equals o with a <br> tag inserted before some newlines and returns the number of insertions.
func hardWrapWalk(o, h []byte, xhtml bool) (int, bool) {
	tag := []byte("<br>")
	if xhtml {
		tag = []byte("<br />")
	}
	i, j, k := 0, 0, 0
	for i < len(o) && j < len(h) {
		if o[i] == h[j] {
			// ambiguity: both continue equally; but an inserted tag starts with '<' while o has '\n' there
			if !(o[i] == '\n') || !bytes.HasPrefix(h[j:], tag) {
				i++
				j++
				continue
			}
		}
		if o[i] == '\n' && bytes.HasPrefix(h[j:], tag) && j+len(tag) < len(h) && h[j+len(tag)] == '\n' {
			j += len(tag)
			k++
			continue
		}
		return k, false
	}
	return k, i == len(o) && j == len(h)
}

// piecesMatch checks that out_U is out with each placeholder comment replaced by arbitrary bytes and each emptied
// href/src value replaced by an attribute value (bytes without a double quote) - and nothing else changed.
func piecesMatch(safe, unsafe []byte) bool {
	var pieces [][]byte
	var urlGap []bool // urlGap[i]: the gap after pieces[i] is an attribute value
	rest := safe
	for {
		best, bl := -1, 0
		for _, m := range [][]byte{omitted, hrefE, srcE} {
			if i := bytes.Index(rest, m); i >= 0 && (best < 0 || i < best) {
				best, bl = i, len(m)
			}
		}
		if best < 0 {
			pieces = append(pieces, rest)
			break
		}
		if bl == len(omitted) {
			pieces = append(pieces, rest[:best])
			urlGap = append(urlGap, false)
			rest = rest[best+bl:]
			// an HTML block's placeholder is the comment plus a newline, while the original bytes may end without
			// one (end of input): the newline directly after the comment belongs to the placeholder
			if len(rest) > 0 && rest[0] == '\n' {
				rest = rest[1:]
			}
		} else {
			pieces = append(pieces, rest[:best+bl-1]) // up to and including the opening quote
			urlGap = append(urlGap, true)
			rest = rest[best+bl-1:] // continues with the closing quote
		}
	}
	if len(pieces) == 1 {
		return bytes.Equal(pieces[0], unsafe)
	}
	if !bytes.HasPrefix(unsafe, pieces[0]) {
		return false
	}
	// match pieces[i:] against unsafe[pos:], the gap before pieces[i] being of kind urlGap[i-1]
	var match func(i, pos int) bool
	match = func(i, pos int) bool {
		p := pieces[i]
		last := i == len(pieces)-1
		try := func(at int) bool {
			if !bytes.HasPrefix(unsafe[at:], p) {
				return false
			}
			if last {
				return at+len(p) == len(unsafe)
			}
			return match(i+1, at+len(p))
		}
		if urlGap[i-1] {
			q := bytes.IndexByte(unsafe[pos:], '"')
			if q < 0 {
				return false
			}
			return try(pos + q) // the value ends at the first quote: the next piece starts exactly there
		}
		if last {
			return len(unsafe)-len(p) >= pos && try(len(unsafe)-len(p))
		}
		for at := pos; at <= len(unsafe)-len(p); at++ {
			j := bytes.Index(unsafe[at:], p)
			if j < 0 {
				return false
			}
			at += j
			if try(at) {
				return true
			}
		}
		return false
	}
	return match(1, len(pieces[0]))
}

type c10Worker struct {
	cv  [8]*core.Conv // index bit0=xhtml bit1=hardwraps bit2=unsafe
	out [8][]byte
}

func newC10Worker(ext string) *c10Worker {
	w := &c10Worker{}
	for m := 0; m < 8; m++ {
		c := core.MustCfg(ext)
		c.XHTML, c.HardWraps, c.Unsafe = m&1 != 0, m&2 != 0, m&4 != 0
		w.cv[m] = core.NewConv(c)
	}
	return w
}

func c10Case(s *core.Sub, w *c10Worker, word []byte) uint64 {
	for m := 0; m < 8; m++ {
		out, ok := mustConvert(s, w.cv[m], word)
		if !ok {
			return 0
		}
		w.out[m] = append(w.out[m][:0], out...)
	}
	s.Evals.Add(8)
	doc, pan := w.cv[0].Parse(word)
	if pan != nil {
		return 0
	}
	soft := countSoftBreaks(doc)
	flagged := c10Flagged(doc, word)
	hasLT := bytes.IndexByte(word, '<') >= 0
	for m := 0; m < 8; m++ {
		cfg := w.cv[m].Cfg.String()
		if m&1 != 0 { // XHTML vs same without
			a := bytes.ReplaceAll(w.out[m], voidX, voidH)
			b := bytes.ReplaceAll(w.out[m&^1], voidX, voidH)
			if !bytes.Equal(a, b) {
				s.Violate("xhtml-changes-more-than-void-syntax:"+lastBlockKind(w.cv[0], word), cfg, word, nil, "XHTML output differs from the HTML5 output in more than ' />' vs '>'", string(w.out[m&^1]), string(w.out[m]))
			}
		}
		if !hasLT || m&4 == 0 {
			// no raw HTML can be in the output: every void element must follow the switch
			if toks, err := strict.Tokenize(w.out[m]); err == nil {
				for i := range toks {
					if toks[i].Kind == strict.Start && strict.Void[toks[i].Name] && toks[i].SelfClose != (m&1 != 0) {
						s.Violate("void-syntax:"+toks[i].Name, cfg, word, nil, "void element <"+toks[i].Name+"> does not follow the XHTML option", "", string(w.out[m]))
						break
					}
				}
			}
		}
		if m&2 != 0 { // HardWraps vs same without
			k, ok := hardWrapWalk(w.out[m&^2], w.out[m], m&1 != 0)
			if !ok {
				s.Violate("hardwraps-changes-more-than-br:"+lastBlockKind(w.cv[0], word), cfg, word, nil, "HardWraps output is not the plain output with <br> inserted before newlines", string(w.out[m&^2]), string(w.out[m]))
			} else if k != soft {
				s.Violate(fmt.Sprintf("hardwraps-br-count:%s", lastBlockKind(w.cv[0], word)), cfg, word, nil, fmt.Sprintf("%d <br> inserted but the tree has %d rendered soft line breaks", k, soft), string(w.out[m&^2]), string(w.out[m]))
			}
		}
		if m&4 != 0 { // Unsafe vs same without
			if !flagged && !bytes.Equal(w.out[m&^4], w.out[m]) {
				s.Violate("unsafe-changes-a-document-without-raw-html-or-dangerous-url:"+lastBlockKind(w.cv[0], word), cfg, word, nil, "the tree holds no raw HTML and no destination that html.IsDangerousURL classifies as dangerous (as written or as written to the output), yet Unsafe changes the output", string(w.out[m&^4]), string(w.out[m]))
			} else if !piecesMatch(w.out[m&^4], w.out[m]) {
				s.Violate("unsafe-changes-more-than-raw-html-and-urls:"+lastBlockKind(w.cv[0], word), cfg, word, nil, "Unsafe output differs from the safe output outside placeholder comments / emptied URLs", string(w.out[m&^4]), string(w.out[m]))
			}
		}
	}
	if bytes.Count(w.out[0], []byte("<")) >= 2 {
		return core.Hash(w.out[0])
	}
	return 0
}

// c10Flagged: the tree holds raw HTML, or a link / image / autolink destination that goldmark's exported predicate
// classifies as dangerous, as written in the source or as written to the output (the side condition of the Unsafe clause).
func c10Flagged(doc ast.Node, src []byte) bool {
	flagged := false
	_ = ast.Walk(doc, func(n ast.Node, entering bool) (ast.WalkStatus, error) {
		if !entering {
			return ast.WalkContinue, nil
		}
		switch x := n.(type) {
		case *ast.HTMLBlock, *ast.RawHTML:
			flagged = true
		case *ast.Link:
			flagged = flagged || html.IsDangerousURL(x.Destination) || html.IsDangerousURL(util.URLEscape(x.Destination, true))
		case *ast.Image:
			flagged = flagged || html.IsDangerousURL(x.Destination) || html.IsDangerousURL(util.URLEscape(x.Destination, true))
		case *ast.AutoLink:
			flagged = flagged || html.IsDangerousURL(x.URL(src))
		}
		if flagged {
			return ast.WalkStop, nil
		}
		return ast.WalkContinue, nil
	})
	return flagged
}

func runC10(r *core.Run) {
	type job struct {
		name   string
		toks   []string
		nq, nt int
		exts   []string
	}
	urlish := []string{"a", " ", "\n", "[", "]", "(", ")", "<", ">", "javascript:", "data:", "x", "!", "\"", "<b>", "http://a.bc", ":"}
	jobs := []job{
		{"block", core.ABlock, 4, 5, []string{"core", "all+align=attr", "all+attr+autoid+align=style", "all+attrall+align=attr"}},
		{"inline", core.AInline, 4, 5, []string{"core", "all+align=attr"}},
		{"html", core.AHTML, 4, 5, []string{"core", "gfm+align=attr"}},
		{"ext", core.AExt, 4, 5, []string{"gfm+align=attr", "gfm+align=style", "footnote", "deflist", "typographer", "tasklist", "all+align=attr", "all+attrall+align=attr"}},
		{"url", urlish, 4, 5, []string{"core", "all+align=attr"}},
	}
	for _, j := range jobs {
		for _, ext := range j.exts {
			wordsSub(r, fmt.Sprintf("words-%s/%s", j.name, ext),
				fmt.Sprintf("each word converted under all 8 subsets of {XHTML,HardWraps,Unsafe} on top of %s: XHTML only rewrites void syntax; HardWraps only inserts <br> before exactly the rendered soft breaks (count from the AST); Unsafe only replaces placeholder comments / emptied URLs; distinct = plain output digest", ext),
				j.toks, core.Pick(r, j.nq, j.nt), func(s *core.Sub, w int) func([]byte) uint64 {
					cw := newC10Worker(ext)
					return func(word []byte) uint64 { return c10Case(s, cw, word) }
				})
		}
	}
	// dangerous destinations in every URL-bearing construct, with and without titles / attributes / neighbours: Unsafe
	// may only change the URL itself
	{
		titled := []string{"[a](§ \"t\")", "[a](<§> 't')", "![a](§ \"t\")", "![a](<§> (t))", "[a][r]\n\n[r]: § \"t\"", "![a][r]\n\n[r]: <§> 't'", "[*a* `b`](§ \"t\") c", "[a](§ \"t\") [b](/ok \"u\") ![c](§ \"v\")",
			"# [a](§ \"t\") {#i .c}", "|[a](§ \"t\")|\n|:-:|\n|![b](§ 'u')|", "x[^1]\n\n[^1]: [a](§ \"t\")", "- [ ] [a](§ \"t\")", "~~[a](§ \"t\")~~", "<§> [a](§ \"t\")", "[![i](§ \"t\")](§ \"u\")"}
		var urls []string
		for _, sc := range c04Schemes {
			spellings(sc[0], sc[1], 1, func(u string) { urls = append(urls, u) })
		}
		urls = append(urls, "/ok", "http://a.bc/?x=1&y=2", "#frag", "mailto:a@b.cd")
		for _, ext := range []string{"core", "all+attr+autoid+align=attr"} {
			var docs [][]byte
			for _, k := range urlConstructs {
				for _, u := range urls {
					docs = append(docs, []byte(strings.ReplaceAll(k.tmpl, "§", u)))
				}
			}
			for _, t := range titled {
				for _, u := range urls {
					docs = append(docs, []byte(strings.ReplaceAll(t, "§", u)))
				}
			}
			s := r.Sub("dangerous-urls/"+ext, fmt.Sprintf("%d URL-bearing constructs (the %d of C04 plus %d with titles, attributes and neighbouring links/images) × %d destinations (every spelling with ≤1 obfuscation edit of the dangerous schemes, plus harmless ones) under the 8 option subsets on top of %s", len(urlConstructs)+len(titled), len(urlConstructs), len(titled), len(urls), ext))
			s.Planned = int64(len(docs)) * 8
			core.ForEachIndex(len(docs), core.Workers(), func(w int) func(int) {
				cw := newC10Worker(ext)
				return func(i int) {
					if h := c10Case(s, cw, docs[i]); h != 0 {
						s.Distinct(h)
					}
					if i%(len(docs)/5+1) == 0 {
						s.AddSample(core.Q(docs[i]))
					}
				}
			}, r.Expired)
			s.States.Store(int64(len(docs)))
			s.Transitions.Store(s.Evals.Load())
			s.Done()
		}
	}
	// sink contexts with benign and HTML-ish payloads
	pay := []string{"a", "a\nb", "a  \nb", "<b>", "a<br>b", "x\\\ny", "javascript:x", "&amp;", "\"q\""}
	for _, ext := range []string{"all+attr+autoid+align=attr"} {
		s := r.Sub("sinks/"+ext, fmt.Sprintf("%d sink contexts × %d payloads under the 8 option subsets on top of %s", len(sinkContexts), len(pay), ext))
		cw := newC10Worker(ext)
		for _, ctx := range sinkContexts {
			for _, p := range pay {
				doc := bytes.ReplaceAll([]byte(ctx.tmpl), []byte("§"), []byte(p))
				if h := c10Case(s, cw, doc); h != 0 {
					s.Distinct(h)
				}
				s.States.Add(1)
			}
			s.AddSample(ctx.tmpl)
		}
		s.Transitions.Store(s.Evals.Load())
		s.Done()
	}
	runC10Channels(r)
	// every ordered pair of URL-bearing documents on one set of eight instances: the switches stay orthogonal whatever the
	// instances have rendered before
	{
		docs, _, _ := c06URLDocs()
		for _, ext := range []string{"core", "all+align=attr"} {
			s := r.Sub("url-pairs/"+ext, fmt.Sprintf("every ordered pair of %d URL-bearing documents (harmless, every dangerous scheme, allowed and refused data: media types) converted one after the other under the 8 option subsets on top of %s, on instances that are new for each pair: the same three clauses for both documents", len(docs), ext))
			s.Planned = int64(len(docs) * len(docs))
			s.Bound = fmt.Sprintf("%d × %d ordered pairs × 8 subsets", len(docs), len(docs))
			core.ForEachIndex(len(docs), core.Workers(), func(w int) func(int) {
				return func(i int) {
					for j := range docs {
						cw := newC10Worker(ext)
						c10Case(s, cw, docs[i])
						c10Case(s, cw, docs[j])
					}
					s.Distinct(core.Hash(docs[i]))
					if i%(len(docs)/4+1) == 0 {
						s.AddSample([]string{core.Q(docs[i]), core.Q(docs[(i*7+1)%len(docs)])})
					}
				}
			}, r.Expired)
			s.States.Store(int64(len(docs) * len(docs)))
			s.Transitions.Store(s.Evals.Load())
			s.Done()
		}
	}
	nb := newC10Pool("all+attr+autoid+align=attr")
	nbhdSub(r, "nbhd-spec/all+attr+autoid+align=attr", core.MustCfg("all+attr+autoid+align=attr"), func(s *core.Sub, cv *core.Conv, w []byte) {
		c10Case(s, nb.get(cv), w)
	})
	nn := newC10Pool("all+attr+autoid+align=attr")
	nestSub(r, "nesting/all+attr+autoid+align=attr", core.MustCfg("all+attr+autoid+align=attr"), core.Pick(r, 3, 4), func(s *core.Sub, cv *core.Conv, w []byte) {
		c10Case(s, nn.get(cv), w)
	})
	nc := newC10Pool("all+attr+autoid+align=attr")
	corpusSub(r, "structured-corpus/all+attr+autoid+align=attr", core.MustCfg("all+attr+autoid+align=attr"), nil, func(s *core.Sub, cv *core.Conv, w []byte) {
		c10Case(s, nc.get(cv), w)
	})
}

// runC10Channels: the three switches must mean the same however they are handed to the library. For every subset of
// {Unsafe, XHTML, HardWraps} (× AutoHeadingID+Attribute on/off) the instance built through each alternative channel of
// core.Channels must produce the bytes of the standard channel; the standard channel's output is what the other
// sub-checks relate to the option-less output, so the rewrite clauses carry over to every channel.
func runC10Channels(r *core.Run) {
	type variant struct {
		cfg core.Cfg
		chs []int
	}
	var vs []variant
	for _, ext := range []string{"core", "all+align=attr"} {
		for m := 0; m < 16; m++ {
			c := core.MustCfg(ext)
			c.Unsafe, c.XHTML, c.HardWraps = m&1 != 0, m&2 != 0, m&4 != 0
			c.AutoID, c.Attr = m&8 != 0, m&8 != 0
			chs := []int{2, 3, 4, 5, 6, 7}
			if ext == "core" {
				chs = []int{1, 2, 3, 4, 5, 6, 7, 8}
			}
			vs = append(vs, variant{c, chs})
		}
	}
	var docs [][]byte
	core.ForEachWord(core.Union(core.ABlock, []string{"<b>", "[a](javascript:x)", "![a](b)", "<http://a.b>", "&amp;", "- [ ] ", "|a|\n|-|\n", "{#i}"}), core.Pick(r, 3, 4), 1, func(int) func([]byte) {
		return func(w []byte) { docs = append(docs, append([]byte{}, w...)) }
	}, nil)
	NestDocs(2, func(d []byte) { docs = append(docs, append([]byte{}, d...)) })
	for _, e := range Seeds(r) {
		docs = append(docs, []byte(e.Markdown))
	}
	s := r.Sub("option-channels", fmt.Sprintf("%d option combinations ({core, all} × subsets of {Unsafe, XHTML, HardWraps} × {–, AutoHeadingID+Attribute}) × alternative registration channels %q × %d documents (block words, nesting documents, spec examples and the repository's test-case sources): bytes equal to the standard channel (goldmark.WithRendererOptions / WithParserOptions)", len(vs), core.Channels[1:], len(docs)))
	s.Bound = fmt.Sprintf("%d configurations × ≤8 channels × %d documents", len(vs), len(docs))
	complete := core.ForEachIndex(len(vs), core.Workers(), func(w int) func(int) {
		var ref []byte
		return func(i int) {
			v := vs[i]
			std := &core.Conv{Cfg: v.cfg, MD: v.cfg.NewVia(0)}
			var alts []*core.Conv
			for _, ch := range v.chs {
				alts = append(alts, &core.Conv{Cfg: v.cfg, MD: v.cfg.NewVia(ch)})
			}
			for _, d := range docs {
				out, ok := mustConvert(s, std, d)
				if !ok {
					continue
				}
				ref = append(ref[:0], out...)
				for k, a := range alts {
					got, ok := mustConvert(s, a, d)
					s.Evals.Add(1)
					if ok && !bytes.Equal(got, ref) {
						s.Violate("option-channel-changes-output:"+core.Channels[v.chs[k]], v.cfg.String(), d, nil,
							fmt.Sprintf("the same options handed over through the %s channel give different bytes than through goldmark.WithParserOptions/WithRendererOptions", core.Channels[v.chs[k]]), string(ref), string(got))
					}
				}
				s.Distinct(core.Hash(ref))
			}
			s.AddSample(v.cfg.String())
		}
	}, r.Expired)
	if !complete {
		s.Incomplete("internal deadline reached")
	}
	s.States.Store(int64(len(vs) * len(docs)))
	s.Transitions.Store(s.Evals.Load())
	s.Done()
}

type c10Pool struct {
	ext string
	mu  chan struct{}
	m   map[*core.Conv]*c10Worker
}

func newC10Pool(ext string) *c10Pool {
	p := &c10Pool{ext: ext, mu: make(chan struct{}, 1), m: map[*core.Conv]*c10Worker{}}
	return p
}

func (p *c10Pool) get(cv *core.Conv) *c10Worker {
	p.mu <- struct{}{}
	defer func() { <-p.mu }()
	w := p.m[cv]
	if w == nil {
		w = newC10Worker(p.ext)
		p.m[cv] = w
	}
	return w
}

func replayC10(r *core.Run, v *core.Violation) {
	cfg, err := core.ParseCfg(v.Cfg)
	if err != nil {
		fmt.Println(err)
		return
	}
	cfg.XHTML, cfg.HardWraps, cfg.Unsafe = false, false, false
	s := r.Sub(v.Sub, "replay of one input under the 8 option subsets")
	c10Case(s, newC10Worker(cfg.String()), v.Input())
	s.Done()
}
