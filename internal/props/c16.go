package props

import (
	"bytes"
	"fmt"
	"regexp"
	"strconv"
	"strings"

	"github.com/yuin/goldmark"
	"github.com/yuin/goldmark/ast"
	"github.com/yuin/goldmark/extension"
	east "github.com/yuin/goldmark/extension/ast"
	"github.com/yuin/goldmark/parser"
	"github.com/yuin/goldmark/renderer/html"
	"github.com/yuin/goldmark/text"
	"github.com/yuin/goldmark/util"

	"verif/internal/core"
	"verif/internal/strict"
)

func init() {
	register(&Check{ID: "C16", QuickS: 200, ThorS: 1800, Run: runC16, Replay: replayC16})
}

var reFnRef = regexp.MustCompile(`^fnref(\d*):(\d+)$`)
var reFn = regexp.MustCompile(`^fn:(\d+)$`)

type fnProblem struct {
	code string
	k, n int // for dangling back-links: the missing reference fnref<k>:<n>
	msg  string
}

// footnoteOracle checks numbering and cross-links on the strictly tokenized output.
func footnoteOracle(out []byte) (probs []fnProblem, items, sups int, lexErr *strict.Error) {
	return footnoteOracleP(out, "")
}

// footnoteOracleP is the oracle for an instance configured with an id prefix: every generated id is prefix + the usual
// name. An element whose id lacks the prefix is simply not a footnote item / reference of this document, so a reference
// that links to it links to nothing.
func footnoteOracleP(out []byte, prefix string) (probs []fnProblem, items, sups int, lexErr *strict.Error) {
	reFn, reFnRef := reFn, reFnRef
	if prefix != "" {
		reFn = regexp.MustCompile(`^` + regexp.QuoteMeta(prefix) + `fn:(\d+)$`)
		reFnRef = regexp.MustCompile(`^` + regexp.QuoteMeta(prefix) + `fnref(\d*):(\d+)$`)
	}
	toks, err := strict.Tokenize(out)
	if err != nil {
		return nil, 0, 0, err
	}
	ids := map[string]int{}
	var itemNums []int
	supIDs := map[string]bool{}
	type bl struct {
		target string
		inItem int
	}
	var backlinks []bl
	curItem := 0
	liDepth := 0
	itemDepth := -1
	for i := range toks {
		t := &toks[i]
		if t.Kind == strict.End && t.Name == "li" {
			liDepth--
			if liDepth == itemDepth {
				curItem, itemDepth = 0, -1
			}
			continue
		}
		if t.Kind != strict.Start {
			continue
		}
		if id, ok := t.Attr("id"); ok {
			ids[id]++
			// every generated id has the documented shape: an item id is prefix + "fn:" + number, a reference id
			// prefix + "fnref" + optional number + ":" + number
			if strings.HasPrefix(id, prefix+"fn:") && !reFn.MatchString(id) || strings.HasPrefix(id, prefix+"fnref") && !reFnRef.MatchString(id) {
				probs = append(probs, fnProblem{code: "generated-id-malformed", msg: fmt.Sprintf("<%s id=%q>: not a footnote item or reference id of the documented shape", t.Name, id)})
			}
		}
		switch t.Name {
		case "li":
			if id, ok := t.Attr("id"); ok {
				if m := reFn.FindStringSubmatch(id); m != nil {
					n, _ := strconv.Atoi(m[1])
					itemNums = append(itemNums, n)
					curItem = n
					itemDepth = liDepth
				}
			}
			liDepth++
		case "sup":
			id, _ := t.Attr("id")
			m := reFnRef.FindStringSubmatch(id)
			if m == nil {
				continue
			}
			sups++
			supIDs[id] = true
			n, _ := strconv.Atoi(m[2])
			// the following tokens: <a href="#fn:N" ...> N </a>
			if i+2 < len(toks) && toks[i+1].Kind == strict.Start && toks[i+1].Name == "a" && toks[i+2].Kind == strict.Text {
				href, _ := toks[i+1].Attr("href")
				if href != "#"+prefix+"fn:"+m[2] {
					probs = append(probs, fnProblem{code: "ref-href-mismatch", msg: fmt.Sprintf("sup %s links to %s", id, href)})
				}
				if toks[i+2].Text != m[2] {
					probs = append(probs, fnProblem{code: "ref-shows-wrong-number", msg: fmt.Sprintf("sup %s shows %q", id, toks[i+2].Text)})
				}
			} else {
				probs = append(probs, fnProblem{code: "ref-malformed", msg: "sup " + id + " is not followed by a link and its number"})
			}
			_ = n
		case "a":
			if role, _ := t.Attr("role"); role == "doc-backlink" {
				href, _ := t.Attr("href")
				backlinks = append(backlinks, bl{strings.TrimPrefix(href, "#"), curItem})
			}
		}
	}
	items = len(itemNums)
	for i, n := range itemNums {
		if n != i+1 {
			probs = append(probs, fnProblem{code: "items-not-consecutive", msg: fmt.Sprintf("footnote items are numbered %v", itemNums)})
			break
		}
	}
	for id, c := range ids {
		if c > 1 {
			probs = append(probs, fnProblem{code: "duplicate-id", msg: fmt.Sprintf("id %q occurs %d times", id, c)})
		}
	}
	for id := range supIDs {
		m := reFnRef.FindStringSubmatch(id)
		n, _ := strconv.Atoi(m[2])
		if n < 1 || n > len(itemNums) {
			probs = append(probs, fnProblem{code: "ref-without-item", msg: "reference " + id + " points to a footnote item that is not rendered"})
		}
	}
	blSeen := map[string]int{}
	for _, b := range backlinks {
		blSeen[b.target]++
		m := reFnRef.FindStringSubmatch(b.target)
		if m == nil {
			probs = append(probs, fnProblem{code: "backlink-malformed", msg: "back-link target " + b.target})
			continue
		}
		k := 0
		if m[1] != "" {
			k, _ = strconv.Atoi(m[1])
		}
		n, _ := strconv.Atoi(m[2])
		if n != b.inItem {
			probs = append(probs, fnProblem{code: "backlink-in-wrong-item", msg: fmt.Sprintf("back-link to %s sits in item %d", b.target, b.inItem)})
		}
		if !supIDs[b.target] {
			probs = append(probs, fnProblem{code: "backlink-dangling", k: k, n: n, msg: "back-link points to #" + b.target + " which does not exist in the output"})
		}
	}
	for t, c := range blSeen {
		if c > 1 {
			probs = append(probs, fnProblem{code: "backlink-duplicate", msg: fmt.Sprintf("%d back-links point to %s", c, t)})
		}
	}
	for id := range supIDs {
		if blSeen[id] == 0 {
			probs = append(probs, fnProblem{code: "ref-without-backlink", msg: "reference " + id + " has no back-link"})
		}
	}
	return probs, items, sups, nil
}

// fnProbe snapshots where each FootnoteLink sits just before the footnote AST transformer (priority 999) runs.
type fnProbe struct{ paths map[[2]int]string }

func (p *fnProbe) Transform(doc *ast.Document, reader text.Reader, pc parser.Context) {
	p.paths = map[[2]int]string{}
	seen := map[int]int{}
	_ = ast.Walk(doc, func(n ast.Node, entering bool) (ast.WalkStatus, error) {
		if !entering {
			return ast.WalkContinue, nil
		}
		if l, ok := n.(*east.FootnoteLink); ok {
			k := seen[l.Index]
			seen[l.Index]++
			path := "other"
			var kinds []string
			for a := n.Parent(); a != nil; a = a.Parent() {
				kinds = append(kinds, a.Kind().String())
				if a.Kind() == ast.KindImage {
					path = "Image>FootnoteLink"
					break
				}
				if f, ok := a.(*east.Footnote); ok && f.Index < 0 {
					path = "Footnote[unreferenced]>FootnoteLink"
					break
				}
			}
			if path == "other" {
				path = "rendered-path:" + strings.Join(kinds, "<")
			}
			p.paths[[2]int{k, l.Index}] = path
		}
		return ast.WalkContinue, nil
	})
}

// danglingFingerprint re-parses doc with the probe installed and says where the missing reference was.
// Note: an unreferenced footnote only has Index<0 at probe time if nothing referenced it, which is what F2 needs.
func danglingFingerprint(cfg core.Cfg, doc []byte, k, n int) string {
	probe := &fnProbe{}
	md := goldmark.New(goldmark.WithExtensions(cfg.Extenders()...),
		goldmark.WithParserOptions(append(cfg.ParserOptions(), parser.WithASTTransformers(util.Prioritized(probe, 998)))...))
	func() {
		defer func() { _ = recover() }()
		md.Parser().Parse(text.NewReader(doc))
	}()
	if p, ok := probe.paths[[2]int{k, n}]; ok {
		return p
	}
	return "no-such-reference"
}

func c16Case(s *core.Sub, cv *core.Conv, doc []byte) (uint64, []byte) {
	out, ok := mustConvert(s, cv, doc)
	if !ok {
		return 0, nil
	}
	s.Evals.Add(1)
	probs, items, sups, lerr := footnoteOracle(out)
	if lerr != nil {
		s.Violate("lex:"+lerr.Code, cv.Cfg.String(), doc, nil, lerr.Error(), "", string(out))
		return 0, out
	}
	for _, p := range probs {
		sig := p.code
		if p.code == "backlink-dangling" {
			sig += "|" + danglingFingerprint(cv.Cfg, doc, p.k, p.n)
		}
		s.Violate(sig, cv.Cfg.String(), doc, nil, p.msg, "consistent footnote numbering and cross-links", string(out))
	}
	if items > 0 || sups > 0 {
		return core.Hash(out), out
	}
	return 0, out
}

type c16Item struct {
	md       string
	refs     []int // labels referenced (syntactically, outside code spans)
	def      int   // label defined (0 = none)
	marker   string
	needsGFM bool
}

func c16Menu() []c16Item {
	var m []c16Item
	for x := 1; x <= 3; x++ {
		l := strconv.Itoa(x)
		m = append(m,
			c16Item{md: "p[^" + l + "]", refs: []int{x}},
			c16Item{md: "*e[^" + l + "]*", refs: []int{x}},
			c16Item{md: "[l[^" + l + "]](u)", refs: []int{x}},
			c16Item{md: "![i[^" + l + "]](u)", refs: []int{x}},
			c16Item{md: "# h[^" + l + "]", refs: []int{x}},
			c16Item{md: "|t[^" + l + "]|\n|-|", refs: []int{x}, needsGFM: true},
			c16Item{md: "`[^" + l + "]`"},
			c16Item{md: "two[^" + l + "] times[^" + l + "]", refs: []int{x, x}},
		)
		y := x%3 + 1
		m = append(m,
			c16Item{md: "[^" + l + "]: DP" + l, def: x, marker: "DP" + l},
			c16Item{md: "[^" + l + "]: DM" + l + "\n\n    more", def: x, marker: "DM" + l},
			c16Item{md: "[^" + l + "]: DR" + l + "[^" + strconv.Itoa(y) + "]", def: x, marker: "DR" + l, refs: nil},
			c16Item{md: "> [^" + l + "]: DQ" + l, def: x, marker: "DQ" + l},
			c16Item{md: "- [^" + l + "]: DL" + l, def: x, marker: "DL" + l},
			// a definition whose body holds, inside a container, the definition of another label
			c16Item{md: "[^" + l + "]: DN" + l + "\n\n    > [^" + strconv.Itoa(y) + "]: DNQ" + l, def: x, marker: "DN" + l},
			c16Item{md: "[^" + l + "]: DM" + l + "\n\n    - [^" + strconv.Itoa(y) + "]: DNL" + l + "\n", def: x, marker: "DM" + l},
		)
	}
	return m
}

// runC16SharedContext: two documents converted one after the other with the SAME parser.Context handed in through
// parser.WithContext (the documented way to get at per-parse data): each rendered document must be consistent on its own.
// Link reference definitions legitimately survive in a reused context; nothing in the oracle depends on them.
func runC16SharedContext(r *core.Run) {
	menu := c16Menu()
	var docs [][]byte
	for i := range menu {
		for j := range menu {
			docs = append(docs, []byte(menu[i].md+"\n\n"+menu[j].md+"\n"))
		}
	}
	firsts := docs
	if r.Quick() {
		// quick: the first document is one of the one-item documents or of the two-item documents that define and use a label
		firsts = nil
		for i := range menu {
			firsts = append(firsts, []byte(menu[i].md+"\n"))
			if menu[i].def != 0 {
				for j := range menu {
					if len(menu[j].refs) > 0 {
						firsts = append(firsts, []byte(menu[j].md+"\n\n"+menu[i].md+"\n"))
					}
				}
			}
		}
	}
	for _, cn := range []string{"footnote", "all+xhtml"} {
		cfg := core.MustCfg(cn)
		s := r.Sub("shared-context/"+cn, fmt.Sprintf("every ordered pair (first of %d, second of the %d two-item documents of the menu), converted one after the other on one instance with one parser.Context passed through parser.WithContext, under %s: both outputs satisfy the output-consistency oracle", len(firsts), len(docs), cn))
		s.Planned = int64(2 * len(firsts) * len(docs))
		s.Bound = fmt.Sprintf("%d × %d ordered pairs", len(firsts), len(docs))
		complete := core.ForEachIndex(len(firsts), core.Workers(), func(w int) func(int) {
			md := cfg.New()
			var buf bytes.Buffer
			return func(i int) {
				for j := range docs {
					pc := parser.NewContext()
					for step, d := range [][]byte{firsts[i], docs[j]} {
						buf.Reset()
						var pan any
						var err error
						func() {
							defer func() { pan = recover() }()
							err = md.Convert(d, &buf, parser.WithContext(pc))
						}()
						s.Evals.Add(1)
						hist := []string{"pc := parser.NewContext()", "Convert(" + core.Q(firsts[i]) + ", WithContext(pc))"}
						if step == 1 {
							hist = append(hist, "Convert("+core.Q(docs[j])+", WithContext(pc))")
						}
						if pan != nil || err != nil {
							s.Violate("convert-failed:shared-context", cfg.String(), d, hist, fmt.Sprint("panic=", pan, " err=", err), "", "")
							md = cfg.New()
							break
						}
						probs, items, sups, lerr := footnoteOracle(buf.Bytes())
						if lerr != nil {
							s.Violate("lex:"+lerr.Code, cfg.String(), d, hist, lerr.Error(), "", buf.String())
							continue
						}
						for _, p := range probs {
							s.Violate(p.code+"|shared-context", cfg.String(), d, hist, p.msg, "consistent footnote numbering and cross-links", buf.String())
						}
						if step == 1 && (items > 0 || sups > 0) {
							s.Distinct(core.HashMix(core.Hash(firsts[i]), core.Hash(buf.Bytes())))
						}
					}
				}
				if i%(len(firsts)/5+1) == 0 {
					s.AddSample([]string{core.Q(firsts[i]), core.Q(docs[(i*7+3)%len(docs)])})
				}
			}
		}, r.Expired)
		if !complete {
			s.Incomplete("internal deadline reached")
		}
		s.States.Store(int64(len(firsts) * len(docs)))
		s.Transitions.Store(s.Evals.Load())
		s.Done()
	}
}

// runC16Mixed: k footnotes, each independently referenced 0..2 times from paragraphs, optionally from image alt text (a
// reference that is numbered while parsing but never rendered) and optionally from the body of another footnote; the
// alt-text references come first, so that dropped footnotes take the small numbers before the live ones are renumbered.
// Every combination for k = 3 (thorough 4), paragraphs in ascending and in descending order.
func runC16Mixed(r *core.Run) {
	k := core.Pick(r, 3, 4)
	per := 3 * 2 * k // paragraph references 0..2 × alt reference 0/1 × body reference none or one of the other k-1 (index 0 = none)
	total := 1
	for i := 0; i < k; i++ {
		total *= per
	}
	for _, cn := range []string{"footnote", "all+xhtml"} {
		cfg := core.MustCfg(cn)
		s := r.Sub("mixed-live-and-dropped/"+cn, fmt.Sprintf("%d footnotes, each referenced 0..2 times from paragraphs, 0..1 times from image alt text and with a body that refers to none or one of the others: all %d combinations × {paragraphs ascending, descending} under %s: same output-consistency oracle", k, total, cn))
		s.Planned = int64(2 * total)
		s.Bound = fmt.Sprintf("k=%d combinations=%d orders=2", k, total)
		core.ForEachIndex(total, core.Workers(), func(w int) func(int) {
			cv := core.NewConv(cfg)
			var b strings.Builder
			return func(ci int) {
				paras, alts, bodies := make([]int, k), make([]int, k), make([]int, k)
				x := ci
				for i := 0; i < k; i++ {
					v := x % per
					x /= per
					paras[i], alts[i], bodies[i] = v%3, (v/3)%2, v/6 // bodies: 0 none, j>0: the j-th other footnote
				}
				for _, desc := range []bool{false, true} {
					b.Reset()
					for i := 0; i < k; i++ {
						if alts[i] == 1 {
							fmt.Fprintf(&b, "![i[^%d]](u)\n\n", i+1)
						}
					}
					for ii := 0; ii < k; ii++ {
						i := ii
						if desc {
							i = k - 1 - ii
						}
						for n := 0; n < paras[i]; n++ {
							fmt.Fprintf(&b, "p%d[^%d]\n\n", n, i+1)
						}
					}
					for i := 0; i < k; i++ {
						fmt.Fprintf(&b, "[^%d]: D%d", i+1, i+1)
						if bodies[i] > 0 {
							j := bodies[i] - 1
							if j >= i {
								j++
							}
							if j < k {
								fmt.Fprintf(&b, " x[^%d]", j+1)
							}
						}
						b.WriteString("\n\n")
					}
					doc := []byte(b.String())
					if h, _ := c16Case(s, cv, doc); h != 0 {
						s.Distinct(h)
					}
					if ci%(total/5+1) == 0 && !desc {
						s.AddSample(core.Q(doc))
					}
				}
			}
		}, r.Expired)
		s.States.Store(s.Evals.Load())
		s.Transitions.Store(s.Evals.Load())
		s.Done()
	}
}

func runC16(r *core.Run) {
	runC16Mixed(r)
	runC16SharedContext(r)
	runC16Perms(r)
	runC16Prefix(r)
	runC16PrefixLengths(r)
	for _, cn := range []string{"footnote", "all+xhtml"} {
		docsSub(r, "count-families/"+cn, "the indexed families of CountDocs (n footnotes referenced once or twice with definitions after or before, and the other n-item families, for EVERY n up to the bound) under "+cn+": same output-consistency oracle",
			core.MustCfg(cn), CountDocs(core.Pick(r, 150, 400)), func(s *core.Sub, cv *core.Conv, w []byte) { c16Case(s, cv, w) })
	}
	menu := c16Menu()
	idx := make([]string, len(menu))
	for i := range idx {
		idx[i] = string([]byte{byte(i)})
	}
	n := core.Pick(r, 3, 4)
	for _, cn := range []string{"x:footnote,table", "all+xhtml"} {
		cfg := core.MustCfg(cn)
		nn := n
		wordsSub(r, "structured/"+cn, fmt.Sprintf("every sequence of ≤%d items from a menu of %d (references to labels 1..3 in paragraph/emphasis/link text/image alt/heading/table cell/code span/twice; definitions plain, multi-paragraph, reference-bearing, in a quote, in a list item) joined by blank lines under %s; tokenized output: items numbered 1..m in order, every reference shows and links its item, back-links ↔ references one-to-one, all ids distinct; a definition whose label is referenced nowhere leaves no trace (marker text absent); non-trivial = output has footnote markup", nn, len(menu), cn),
			idx, nn, func(s *core.Sub, w int) func([]byte) uint64 {
				cv := core.NewConv(cfg)
				var b strings.Builder
				return func(word []byte) uint64 {
					b.Reset()
					referenced := map[int]bool{}
					for i, c := range word {
						if i > 0 {
							b.WriteString("\n\n")
						}
						it := menu[c]
						b.WriteString(it.md)
						for _, x := range it.refs {
							referenced[x] = true
						}
						if strings.HasPrefix(it.marker, "DR") { // reference-bearing body: counts as a syntactic reference
							referenced[it.def%3+1] = true
						}
					}
					doc := []byte(b.String())
					h, out := c16Case(s, cv, doc)
					if out == nil {
						return 0
					}
					// definitions of labels that nothing references leave no trace
					for _, c := range word {
						it := menu[c]
						if it.def != 0 && !referenced[it.def] && bytes.Contains(out, []byte(it.marker)) {
							s.Violate("unreferenced-definition-rendered", cfg.String(), doc, nil, fmt.Sprintf("label %d is referenced nowhere but its definition text %q appears in the output", it.def, it.marker), "no trace", string(out))
						}
					}
					return h
				}
			})
	}
	alpha := []string{"a", " ", "\n", "[^1]", "[^1]:", "[^2]", "[^2]:", "!", "[", "]", "(u)", "*", "> ", "- ", "|", "    ", "`", "#"}
	for _, cn := range []string{"footnote", "all"} {
		cfg := core.MustCfg(cn)
		wordsSub(r, "words/"+cn, "any word over footnote-heavy tokens: same output-consistency oracle; non-trivial = output has footnote markup, distinct = output digest",
			alpha, core.Pick(r, 4, 5), func(s *core.Sub, w int) func([]byte) uint64 {
				cv := core.NewConv(cfg)
				return func(word []byte) uint64 { h, _ := c16Case(s, cv, word); return h }
			})
	}
}

// runC16Perms: k footnotes defined in label order and first referenced in every order (all k! permutations), some of them
// referenced twice, with the definitions before or after the references: the list is re-sorted by first reference, which
// is where item order and numbering can come apart once more than three items move.
func runC16Perms(r *core.Run) {
	maxK := core.Pick(r, 7, 8)
	for _, cn := range []string{"footnote", "all+xhtml"} {
		cfg := core.MustCfg(cn)
		s := r.Sub("permutations/"+cn, fmt.Sprintf("for k = 1..%d: footnotes f1..fk defined in that order and first referenced in EVERY one of the k! orders, × {each referenced once, every second one referenced twice} × {definitions after, before the references}; same output-consistency oracle, under %s", maxK, cn))
		var perms [][]int
		var rec func(cur []int, used uint, k int)
		rec = func(cur []int, used uint, k int) {
			if len(cur) == k {
				perms = append(perms, append([]int{}, cur...))
				return
			}
			for i := 1; i <= k; i++ {
				if used&(1<<uint(i)) == 0 {
					rec(append(cur, i), used|1<<uint(i), k)
				}
			}
		}
		for k := 1; k <= maxK; k++ {
			rec(nil, 0, k)
		}
		s.Bound = fmt.Sprintf("k≤%d: %d permutations × 4 variants", maxK, len(perms))
		complete := core.ForEachIndex(len(perms), core.Workers(), func(w int) func(int) {
			cv := core.NewConv(cfg)
			return func(i int) {
				pm := perms[i]
				for v := 0; v < 4; v++ {
					var refs, defs strings.Builder
					for pos, x := range pm {
						fmt.Fprintf(&refs, "r%d[^f%d]", pos, x)
						if v&1 != 0 && pos%2 == 1 {
							fmt.Fprintf(&refs, " again[^f%d]", x)
						}
						refs.WriteString("\n\n")
					}
					for x := 1; x <= len(pm); x++ {
						fmt.Fprintf(&defs, "[^f%d]: note %d\n\n", x, x)
					}
					doc := refs.String() + defs.String()
					if v&2 != 0 {
						doc = defs.String() + refs.String()
					}
					if h, _ := c16Case(s, cv, []byte(doc)); h != 0 {
						s.Distinct(h)
					}
					if i%(len(perms)/6+1) == 0 && v == 0 {
						s.AddSample(core.Q([]byte(doc)))
					}
				}
			}
		}, r.Expired)
		if !complete {
			s.Incomplete("internal deadline reached")
		}
		s.States.Store(s.Evals.Load())
		s.Transitions.Store(s.Evals.Load())
		s.Done()
	}
}

// runC16Prefix: the same oracle with an id prefix, handed over through every channel: the extension constructor, a
// renderer option next to the package-level extension value, a late AddOptions call, and the prefix-function form.
func runC16Prefix(r *core.Run) {
	pf := func(n ast.Node) []byte { return []byte("p-") }
	chans := []struct {
		name string
		mk   func() goldmark.Markdown
	}{
		{"NewFootnote(WithFootnoteIDPrefix)", func() goldmark.Markdown {
			return goldmark.New(goldmark.WithExtensions(extension.NewFootnote(extension.WithFootnoteIDPrefix("p-"))))
		}},
		{"Footnote+WithRendererOptions(WithFootnoteIDPrefix)", func() goldmark.Markdown {
			return goldmark.New(goldmark.WithExtensions(extension.Footnote), goldmark.WithRendererOptions(extension.WithFootnoteIDPrefix("p-")))
		}},
		{"Footnote+Renderer().AddOptions(WithFootnoteIDPrefix)", func() goldmark.Markdown {
			m := goldmark.New(goldmark.WithExtensions(extension.Footnote))
			m.Renderer().AddOptions(extension.WithFootnoteIDPrefix([]byte("p-")))
			return m
		}},
		{"NewFootnote(WithFootnoteIDPrefixFunction)", func() goldmark.Markdown {
			return goldmark.New(goldmark.WithExtensions(extension.NewFootnote(extension.WithFootnoteIDPrefixFunction(pf))))
		}},
		{"Footnote+WithRendererOptions(WithFootnoteIDPrefixFunction)", func() goldmark.Markdown {
			return goldmark.New(goldmark.WithExtensions(extension.Footnote, extension.Table), goldmark.WithRendererOptions(extension.WithFootnoteIDPrefixFunction(pf), html.WithXHTML()))
		}},
	}
	docs := CountDocs(core.Pick(r, 12, 60))
	menu := c16Menu()
	for _, a := range menu {
		for _, b := range menu {
			docs = append(docs, []byte(a.md+"\n\n"+b.md))
		}
	}
	for _, ch := range chans {
		s := r.Sub("id-prefix/"+ch.name, fmt.Sprintf("%d documents (count families, every pair of menu items) on an instance whose footnote ids carry the prefix \"p-\" configured through %s: same oracle, every generated id = prefix + name", len(docs), ch.name))
		s.Bound = fmt.Sprintf("%d documents", len(docs))
		core.ForEachIndex(len(docs), core.Workers(), func(w int) func(int) {
			cv := &core.Conv{Cfg: core.MustCfg("footnote"), MD: ch.mk()}
			return func(i int) {
				out, ok := mustConvert(s, cv, docs[i])
				if !ok {
					return
				}
				s.Evals.Add(1)
				probs, items, sups, lerr := footnoteOracleP(out, "p-")
				if lerr != nil {
					s.Violate("lex:"+lerr.Code, ch.name, docs[i], nil, lerr.Error(), "", string(out))
					return
				}
				for _, p := range probs {
					sig := p.code
					if p.code == "backlink-dangling" {
						sig += "|" + danglingFingerprint(core.MustCfg("footnote"), docs[i], p.k, p.n)
					}
					s.Violate(sig, ch.name, docs[i], nil, p.msg, "consistent footnote numbering and cross-links (ids with prefix p-)", string(out))
				}
				if items > 0 || sups > 0 {
					s.Distinct(core.Hash(out))
				}
			}
		}, r.Expired)
		s.States.Store(s.Evals.Load())
		s.Transitions.Store(s.Evals.Load())
		s.Done()
	}
}

// runC16PrefixLengths: id prefixes of EVERY length 1..48, as a string and as a byte slice with spare capacity behind it
// (the prefix is the one value every generated id starts from; anything that builds ids by appending to it shows here).
func runC16PrefixLengths(r *core.Run) {
	maxL := core.Pick(r, 48, 130)
	docs := [][]byte{[]byte("a[^1] b[^2] c[^1]\n\n[^1]: x\n\n[^2]: y[^1]\n"), []byte("[^1]: x\n\na[^1]\n"), []byte("a[^1]\n\n[^1]: x\n\n    y\n")}
	s := r.Sub("id-prefix-lengths", fmt.Sprintf("for EVERY prefix length L = 1..%d: the prefix given as a string option, as a []byte with 64 bytes of spare capacity, and returned by a prefix function from a shared buffer, × %d documents: same oracle with that prefix", maxL, len(docs)))
	core.ForEachIndex(maxL, core.Workers(), func(w int) func(int) {
		return func(i int) {
			l := i + 1
			prefix := strings.Repeat("p", l-1) + "-"
			roomy := append(make([]byte, 0, l+64), prefix...)
			shared := append(make([]byte, 0, l+64), prefix...)
			mks := []func() goldmark.Markdown{
				func() goldmark.Markdown {
					return goldmark.New(goldmark.WithExtensions(extension.NewFootnote(extension.WithFootnoteIDPrefix(prefix))))
				},
				func() goldmark.Markdown {
					return goldmark.New(goldmark.WithExtensions(extension.NewFootnote(extension.WithFootnoteIDPrefix(roomy))))
				},
				func() goldmark.Markdown {
					return goldmark.New(goldmark.WithExtensions(extension.NewFootnote(extension.WithFootnoteIDPrefixFunction(func(ast.Node) []byte { return shared }))))
				},
			}
			for k, mk := range mks {
				cv := &core.Conv{Cfg: core.MustCfg("footnote"), MD: mk()}
				for _, d := range docs {
					out, ok := mustConvert(s, cv, d)
					if !ok {
						continue
					}
					s.Evals.Add(1)
					probs, _, _, lerr := footnoteOracleP(out, prefix)
					if lerr != nil {
						s.Violate("lex:"+lerr.Code, fmt.Sprintf("footnote prefix length %d form %d", l, k), d, nil, lerr.Error(), "", string(out))
						continue
					}
					for _, p := range probs {
						s.Violate(p.code+":prefix", fmt.Sprintf("footnote prefix length %d form %d", l, k), d, nil, p.msg, "consistent footnote numbering and cross-links", string(out))
					}
					s.Distinct(core.Hash(out))
				}
			}
		}
	}, r.Expired)
	s.Bound = fmt.Sprintf("L=1..%d × 3 forms × %d documents", maxL, len(docs))
	s.States.Store(s.Evals.Load())
	s.Transitions.Store(s.Evals.Load())
	s.Done()
}

func replayC16(r *core.Run, v *core.Violation) {
	cfg, err := core.ParseCfg(v.Cfg)
	if err != nil {
		fmt.Println(err)
		return
	}
	s := r.Sub(v.Sub, "replay of one document")
	c16Case(s, core.NewConv(cfg), v.Input())
	s.Done()
}
