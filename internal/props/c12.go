package props

import (
	"bufio"
	"bytes"
	"fmt"
	"github.com/yuin/goldmark/ast"
	"os"
	"runtime"
	"runtime/debug"
	"strings"
	"syscall"

	"github.com/yuin/goldmark/renderer/html"
	"github.com/yuin/goldmark/text"
	"github.com/yuin/goldmark/util"

	"verif/internal/core"
)

func init() {
	register(&Check{ID: "C12", QuickS: 200, ThorS: 1800, Run: runC12, Replay: replayC12})
}

// roPage is a private anonymous mapping whose content can be made read-only, so that any store into a source
// slice (including an append into its spare capacity) faults immediately.
type roPage struct {
	mem []byte
	lo  uintptr
}

const roSize = 1 << 16
const roOff = 64
const roSpare = 16

func newROPage() *roPage {
	m, err := syscall.Mmap(-1, 0, roSize, syscall.PROT_READ|syscall.PROT_WRITE, syscall.MAP_ANON|syscall.MAP_PRIVATE)
	if err != nil {
		panic(err)
	}
	return &roPage{mem: m}
}

// load copies src into the page, protects it and returns a slice with len(src) and 16 bytes of spare capacity.
func (p *roPage) load(src []byte) []byte {
	if len(src)+roOff+roSpare > roSize {
		return nil
	}
	copy(p.mem[roOff:], src)
	for i := 0; i < roSpare; i++ {
		p.mem[roOff+len(src)+i] = 0xAA
	}
	if err := syscall.Mprotect(p.mem, syscall.PROT_READ); err != nil {
		panic(err)
	}
	return p.mem[roOff : roOff+len(src) : roOff+len(src)+roSpare]
}

func (p *roPage) unlock() {
	if err := syscall.Mprotect(p.mem, syscall.PROT_READ|syscall.PROT_WRITE); err != nil {
		panic(err)
	}
}

// guarded runs f and reports a fault (a store into protected memory) as (true, description).
func guarded(f func()) (faulted bool, what string, otherPanic any) {
	defer func() {
		if r := recover(); r != nil {
			if e, ok := r.(interface{ Addr() uintptr }); ok {
				faulted = true
				what = fmt.Sprintf("write fault at %#x: %v (%s)", e.Addr(), r, core.PanicSite())
				return
			}
			otherPanic = r
		}
	}()
	f()
	return
}

// selfTest proves that the environment actually faults on a store (otherwise the check is broken, not passing).
func c12SelfTest() bool {
	debug.SetPanicOnFault(true)
	p := newROPage()
	s := p.load([]byte("abc"))
	f1, _, _ := guarded(func() { s[1] = 'x' })
	f2, _, _ := guarded(func() { _ = append(s, 'y') })
	f3, _, _ := guarded(func() { _ = append(s[:1], 'z') })
	ok, _, _ := guarded(func() { _ = bytes.ToUpper(s) })
	p.unlock()
	return f1 && f2 && f3 && !ok
}

type utilFn struct {
	name string
	f    func(b []byte)
}

var c12UtilFns = []utilFn{
	{"EscapeHTML", func(b []byte) { util.EscapeHTML(b) }},
	{"html.IsDangerousURL", func(b []byte) { html.IsDangerousURL(b) }},
	{"html.DefaultWriter", func(b []byte) {
		var buf bytes.Buffer
		w := bufio.NewWriter(&buf)
		html.DefaultWriter.Write(w, b)
		html.DefaultWriter.RawWrite(w, b)
		html.DefaultWriter.SecureWrite(w, b)
	}},
	{"util.misc", func(b []byte) {
		util.TrimLeftSpaceLength(b)
		util.TrimRightSpaceLength(b)
		util.TrimLeftLength(b, []byte(" a"))
		util.TrimRightLength(b, []byte(" a"))
		util.FirstNonSpacePosition(b)
		util.FindClosure(b, '<', '>', false, false)
		util.StringToReadOnlyBytes(util.BytesToReadOnlyString(b))
		util.DoFullUnicodeCaseFolding(b)
		util.IsEscapedPunctuation(b, 0)
		util.ReadWhile(b, [2]int{0, len(b)}, util.IsSpace)
	}},
	{"UnescapePunctuations", func(b []byte) { util.UnescapePunctuations(b) }},
	{"ResolveNumericReferences", func(b []byte) { util.ResolveNumericReferences(b) }},
	{"ResolveEntityNames", func(b []byte) { util.ResolveEntityNames(b) }},
	{"URLEscape(true)", func(b []byte) { util.URLEscape(b, true) }},
	{"URLEscape(false)", func(b []byte) { util.URLEscape(b, false) }},
	{"DoFullUnicodeCaseFolding", func(b []byte) { util.DoFullUnicodeCaseFolding(b) }},
	{"ReplaceSpaces", func(b []byte) { util.ReplaceSpaces(b, '-') }},
	{"ToLinkReference", func(b []byte) { _ = util.ToLinkReference(b) }},
	{"TrimLeft", func(b []byte) { util.TrimLeft(b, []byte(" a")) }},
	{"TrimRight", func(b []byte) { util.TrimRight(b, []byte(" a")) }},
	{"TrimLeftSpace", func(b []byte) { util.TrimLeftSpace(b) }},
	{"TrimRightSpace", func(b []byte) { util.TrimRightSpace(b) }},
	{"VisualizeSpaces", func(b []byte) { util.VisualizeSpaces(b) }},
	{"IsBlank", func(b []byte) { util.IsBlank(b) }},
	{"FindClosure", func(b []byte) { util.FindClosure(b, '[', ']', true, true) }},
	{"FindURLIndex", func(b []byte) { util.FindURLIndex(b) }},
	{"FindEmailIndex", func(b []byte) { util.FindEmailIndex(b) }},
	{"IndentPosition", func(b []byte) { util.IndentPosition(b, 0, 4) }},
	{"DedentPositionPadding", func(b []byte) { util.DedentPositionPadding(b, 0, 1, 4) }},
	{"CopyOnWriteBuffer", func(b []byte) {
		c := util.NewCopyOnWriteBuffer(b)
		c.AppendByte('x')
		c.AppendString("yz")
		c.Append([]byte("w"))
		_ = c.Bytes()
	}},
	{"Segment.Value", func(b []byte) {
		if len(b) > 0 {
			s := text.NewSegmentPadding(0, len(b), 2)
			s.ForceNewline = true
			_ = s.Value(b)
			t := s.TrimLeftSpaceWidth(1, b)
			_ = t.Value(b)
		}
	}},
	{"Reader", func(b []byte) {
		r := text.NewReader(b)
		for {
			line, _ := r.PeekLine()
			if line == nil {
				break
			}
			r.SkipSpaces()
			r.AdvanceLine()
		}
	}},
}

func runC12(r *core.Run) {
	if !c12SelfTest() {
		fmt.Println("C12 harness self-test failed: a store into the protected page did not fault; the check cannot run here")
		os.Exit(2)
	}
	r.Assume = append(r.Assume, "start-up self-test passed: a plain store, an append into spare capacity and an append onto a sub-slice of a protected source each raised a recoverable fault; a read-only transform did not")
	type job struct {
		name   string
		toks   []string
		nq, nt int
		cfgs   []string
	}
	jobs := []job{
		{"bytes", core.ABytes, 4, 5, []string{"core", "all+cjk+attr+autoid", "cjk-css3+hardwraps+xhtml"}},
		{"inline", core.AInline, 4, 5, []string{"core", "all+cjk+attr+autoid+unsafe"}},
		{"ext", core.AExt, 4, 5, []string{"all+cjk+attr+autoid", "gfm+unsafe"}},
		{"block", core.Union(core.ABlock, []string{"\t", "{#a}", "[a]:", "[A]"}), 4, 5, []string{"all+cjk+attr+autoid"}},
		{"tab", core.ATab, 4, 5, []string{"all+cjk+attr+autoid"}},
	}
	for _, j := range jobs {
		for _, cn := range j.cfgs {
			cfg := core.MustCfg(cn)
			wordsSub(r, fmt.Sprintf("convert-%s/%s", j.name, cn),
				"the word is placed in a page that is then mprotect'ed read-only, with 16 bytes of spare capacity behind it; Convert and Parse+Render must complete without a write fault and leave the bytes unchanged; distinct = output digest",
				j.toks, core.Pick(r, j.nq, j.nt), func(s *core.Sub, w int) func([]byte) uint64 {
					runtime.LockOSThread()
					debug.SetPanicOnFault(true)
					page := newROPage()
					cv := core.NewConv(cfg)
					cv.Borrowed = true
					return func(word []byte) uint64 { return c12Doc(s, cv, cfg, page, word) }
				})
		}
	}
	// structured documents under the richest configurations
	{
		docs := c12StructuredDocs(r.Quick())
		for _, cn := range []string{"all+cjk+attr+autoid", "gfm+autoid+unsafe+xhtml"} {
			cfg := core.MustCfg(cn)
			s := r.Sub("convert-structured/"+cn, fmt.Sprintf("%d documents from the structured generators (inline/block nesting, heading sequences with colliding texts, footnote reference/definition sequences, attribute blocks, replication families, the leak-prone documents of C06, the printed model documents of C02 — lists, quotes and code blocks indented with tabs and spaces in every single-deviation spelling —, small tables with every pair of cell contents), each converted from a read-only page under %s", len(docs), cn))
			s.Planned = int64(len(docs)) * 2
			complete := core.ForEachIndex(len(docs), core.Workers(), func(w int) func(int) {
				runtime.LockOSThread()
				debug.SetPanicOnFault(true)
				page := newROPage()
				cv := core.NewConv(cfg)
				cv.Borrowed = true
				return func(i int) {
					if h := c12Doc(s, cv, cfg, page, docs[i]); h != 0 {
						s.Distinct(h)
					}
					if i%(len(docs)/5+1) == 0 {
						s.AddSample(core.Q(docs[i]))
					}
				}
			}, r.Expired)
			if !complete {
				s.Incomplete("internal deadline reached")
			}
			s.States.Store(int64(len(docs)))
			s.Transitions.Store(s.Evals.Load())
			s.Done()
		}
	}
	// util transformers
	utoks := core.Union(core.ABytes, []string{"&", "#", ";", "%", "A", "ß", "x", "4", "amp", "\\", "[", "]", "İ", "ẞ"})
	wordsSub(r, "util-transformers", fmt.Sprintf("each word, in a read-only page with spare capacity, is passed to %d exported util/text functions; none may fault or alter it; distinct = word digest", len(c12UtilFns)),
		utoks, core.Pick(r, 3, 4), func(s *core.Sub, w int) func([]byte) uint64 {
			runtime.LockOSThread()
			debug.SetPanicOnFault(true)
			page := newROPage()
			return func(word []byte) uint64 {
				src := page.load(word)
				for _, fn := range c12UtilFns {
					faulted, what, other := guarded(func() { fn.f(src) })
					if faulted {
						s.Violate("util-write:"+fn.name, "", word, nil, what, "no store into the argument", "fault")
					} else if other != nil {
						s.Violate("util-panic:"+fn.name, "", word, nil, fmt.Sprint(other), "no panic", "panic")
					}
				}
				same := bytes.Equal(src, word)
				page.unlock()
				s.Evals.Add(int64(len(c12UtilFns)))
				if !same {
					s.Violate("util-arg-changed", "", word, nil, "argument bytes differ afterwards", string(word), string(src))
				}
				return core.Hash(word)
			}
		})
}

// c12Accessors reads the parsed tree the way a node renderer does: every accessor of every node that takes the source
// (the line and text values, the deprecated Text(source), code block language and info, closure lines, raw HTML segments).
// Reading must not store into the source either.
func c12Accessors(doc ast.Node, src []byte) {
	_ = ast.Walk(doc, func(n ast.Node, entering bool) (ast.WalkStatus, error) {
		if !entering {
			return ast.WalkContinue, nil
		}
		_ = n.Text(src) //nolint:staticcheck // deprecated but public
		if n.Type() != ast.TypeInline {
			if ls := n.Lines(); ls != nil {
				_ = ls.Value(src)
				for i := 0; i < ls.Len(); i++ {
					sg := ls.At(i)
					_ = sg.Value(src)
				}
			}
		}
		switch x := n.(type) {
		case *ast.Text:
			_ = x.Value(src)
			_ = x.Segment.Value(src)
		case *ast.FencedCodeBlock:
			_ = x.Language(src)
			if x.Info != nil {
				_ = x.Info.Value(src)
			}
		case *ast.HTMLBlock:
			if x.HasClosure() {
				_ = x.ClosureLine.Value(src)
			}
		case *ast.RawHTML:
			if x.Segments != nil {
				_ = x.Segments.Value(src)
				for i := 0; i < x.Segments.Len(); i++ {
					sg := x.Segments.At(i)
					_ = sg.Value(src)
				}
			}
		case *ast.AutoLink:
			_ = x.URL(src)
			_ = x.Label(src)
		case *ast.CodeSpan:
			_ = x.Text(src) //nolint:staticcheck
		}
		return ast.WalkContinue, nil
	})
}

// c12Doc converts one document from a read-only page and reports write faults and changed bytes.
func c12Doc(s *core.Sub, cv *core.Conv, cfg core.Cfg, page *roPage, word []byte) uint64 {
	src := page.load(word)
	if src == nil {
		return 0
	}
	var out []byte
	var h uint64
	faulted, what, other := guarded(func() {
		o, err, pan := cv.Convert(src)
		if pan != nil {
			panic(pan)
		}
		_ = err
		out = o
		h = core.Hash(out)
		doc, pan := cv.Parse(src)
		if pan != nil {
			panic(pan)
		}
		if _, _, pan = cv.Render(src, doc); pan != nil {
			panic(pan)
		}
		c12Accessors(doc, src)
	})
	same := bytes.Equal(src, word)
	page.unlock()
	s.Evals.Add(2)
	if faulted {
		s.Violate("source-write:"+cv.Site, cfg.String(), word, nil, what, "no store into the source", "fault")
	} else if other != nil {
		if e, ok := other.(interface{ Addr() uintptr }); ok {
			s.Violate("source-write:"+cv.Site, cfg.String(), word, nil, fmt.Sprintf("write fault at %#x (%v)", e.Addr(), other), "no store into the source", "fault")
		}
		// any other panic is C01's business
	} else if !same {
		s.Violate("source-changed", cfg.String(), word, nil, "source bytes differ after conversion", string(word), string(src))
	}
	return h
}

// c12StructuredDocs collects the documents of the structured generators used elsewhere (nesting, heading sequences,
// footnote sequences, attribute blocks, replication families): constructs that token words of length ≤5 cannot reach.
func c12StructuredDocs(quick bool) [][]byte {
	var docs [][]byte
	add := func(d []byte) { docs = append(docs, append([]byte{}, d...)) }
	NestDocs(map[bool]int{true: 2, false: 3}[quick], add)
	// heading sequences (collision-prone texts) of length ≤2/3
	var heads []c15Head
	for _, t := range c15Texts {
		for f := 0; f < 4; f++ {
			if f == 1 && (t == "" || t == "-" || t == "_" || t == "1") {
				continue
			}
			heads = append(heads, c15Head{t, f})
		}
	}
	var recH func(prefix string, d int)
	recH = func(prefix string, d int) {
		if d > 0 {
			add([]byte(prefix))
		}
		if d == map[bool]int{true: 2, false: 3}[quick] {
			return
		}
		for _, h := range heads {
			p := prefix
			if d > 0 {
				p += "\n\n"
			}
			recH(p+h.md(), d+1)
		}
	}
	recH("", 0)
	menu := c16Menu()
	for _, a := range menu {
		add([]byte(a.md))
		for _, b := range menu {
			add([]byte(a.md + "\n\n" + b.md))
		}
	}
	for _, t := range attrTemplates {
		parts := strings.SplitN(t, "§", 2)
		var rec func(w string, d int)
		rec = func(w string, d int) {
			add([]byte(parts[0] + w + parts[1]))
			if d == 2 {
				return
			}
			for _, tok := range attrToks {
				rec(w+tok, d+1)
			}
		}
		rec("", 0)
	}
	// sequences of complete attribute entries (second and later entries meet the merge paths)
	{
		depth := map[bool]int{true: 2, false: 3}[quick]
		var rec func(w string, d int)
		rec = func(w string, d int) {
			if d > 0 {
				add([]byte("# Title {" + w + "}"))
				add([]byte("Title {" + w + "}\n==="))
				add([]byte("## Title text that is long enough {" + w + "}"))
			}
			if d == depth {
				return
			}
			for _, e := range attrEntries {
				if d == 0 {
					rec(e, 1)
				} else {
					rec(w+" "+e, d+1)
				}
			}
		}
		rec("", 0)
	}
	ReplDocs(map[bool]int{true: 12, false: 140}[quick], func(u, sep string, n int, doc []byte) { add(doc) })
	for _, d := range c06Docs {
		add([]byte(d))
	}
	for _, d := range ModelDocs() {
		add(d)
	}
	for _, d := range TableDocs() {
		add(d)
	}
	for _, d := range TabCodeDocs() {
		add(d)
	}
	for _, d := range CountDocs(map[bool]int{true: 40, false: 200}[quick]) {
		add(d)
	}
	for _, d := range UnicodeDocs() {
		add(d)
	}
	for _, d := range HeadingShapeDocs() {
		add(d)
	}
	for _, d := range SlotDocs() {
		add(d)
	}
	for _, d := range URLShapeDocs() {
		add(d)
	}
	for _, d := range SinkByteDocs() {
		add(d)
	}
	c02DepthChains(map[bool]int{true: 40, false: 100}[quick], func(doc []Blk, n, k int) {
		md, _ := PrintMarkdown(doc, nil)
		add([]byte(md))
		md2, _ := PrintMarkdownPrefer(doc, nil, map[string]int{"item-blocks-blank-line": 1})
		if md2 != md {
			add([]byte(md2))
		}
	})
	for _, d := range SinkLineShapeDocs() {
		add(d)
	}
	// the same documents with CR LF line endings (model documents, tables, tab/space code mixtures, leak-prone documents)
	for _, d := range ModelDocs() {
		add(CRLF(d))
	}
	for _, d := range TableDocs() {
		add(CRLF(d))
	}
	for _, d := range TabCodeDocs() {
		add(CRLF(d))
	}
	for _, d := range c06Docs {
		add(CRLF([]byte(d)))
	}
	for _, d := range SinkLineShapeDocs() {
		add(CRLF(d))
	}
	NestDocs(2, func(d []byte) {
		if bytes.IndexByte(d, '\n') >= 0 {
			add(CRLF(d))
		}
	})
	return docs
}

func replayC12(r *core.Run, v *core.Violation) {
	s := r.Sub(v.Sub, "replay of one input in a read-only page")
	debug.SetPanicOnFault(true)
	page := newROPage()
	src := page.load(v.Input())
	if v.Cfg != "" {
		cfg, err := core.ParseCfg(v.Cfg)
		if err != nil {
			fmt.Println(err)
			return
		}
		cv := core.NewConv(cfg)
		cv.Borrowed = true
		faulted, what, _ := guarded(func() {
			_, _, pan := cv.Convert(src)
			if pan != nil {
				panic(pan)
			}
		})
		if faulted {
			s.Violate("source-write:"+cv.Site, v.Cfg, v.Input(), nil, what, "", "")
		}
	} else {
		for _, fn := range c12UtilFns {
			if faulted, what, _ := guarded(func() { fn.f(src) }); faulted {
				s.Violate("util-write:"+fn.name, "", v.Input(), nil, what, "", "")
			}
		}
	}
	page.unlock()
	s.Evals.Add(1)
	s.Done()
}
