package props

import (
	"bytes"
	"fmt"
	"strings"
	"sync"

	"github.com/yuin/goldmark/parser"

	"verif/internal/core"
)

func init() {
	register(&Check{ID: "C08", QuickS: 200, ThorS: 1800, Run: runC08, Replay: replayC08})
}

// quotePrefix puts "> " in front of every line of d.
func quotePrefix(dst, d []byte) []byte {
	dst = dst[:0]
	start := 0
	for start < len(d) {
		dst = append(dst, '>', ' ')
		i := bytes.IndexByte(d[start:], '\n')
		if i < 0 {
			dst = append(dst, d[start:]...)
			break
		}
		dst = append(dst, d[start:start+i+1]...)
		start += i + 1
	}
	return dst
}

func blank(d []byte) bool {
	for _, c := range d {
		if c != ' ' && c != '\n' {
			return false
		}
	}
	return true
}

var bqOpen, bqClose = []byte("<blockquote>\n"), []byte("</blockquote>\n")

// c08Case checks R(prefix^k(D)) == wrap^k(R(D)) for k=1..depth. It returns the digest of R(D).
func c08Case(s *core.Sub, cv *core.Conv, d []byte, depth int, st *c08State) uint64 {
	if blank(d) || bytes.IndexByte(d, '\t') >= 0 || bytes.IndexByte(d, '\r') >= 0 {
		return 0
	}
	base, ok := mustConvert(s, cv, d)
	if !ok {
		return 0
	}
	st.exp = append(st.exp[:0], base...)
	st.cur = append(st.cur[:0], d...)
	h := core.Hash(base)
	for k := 1; k <= depth; k++ {
		st.tmp = quotePrefix(st.tmp, st.cur)
		st.cur, st.tmp = st.tmp, st.cur
		st.exp2 = append(append(append(st.exp2[:0], bqOpen...), st.exp...), bqClose...)
		st.exp, st.exp2 = st.exp2, st.exp
		got, ok := mustConvert(s, cv, st.cur)
		s.Evals.Add(1)
		if !ok {
			return h
		}
		if !bytes.Equal(got, st.exp) {
			sig := fmt.Sprintf("quote-wrap-differs:depth%d:%s", k, lastBlockKind(cv, d))
			if c08BracketSpanAtLimit(d, k) {
				sig = "quote-wrap-differs:pending-bracket-span-at-998-limit"
			}
			s.Violate(sig, cv.Cfg.String(), d, nil,
				fmt.Sprintf("prefixing every line with '> ' %d time(s) does not wrap the same content; prefixed source %s", k, core.Q(st.cur)), string(st.exp), string(got))
			return h
		}
	}
	s.Evals.Add(1)
	return h
}

type c08State struct{ exp, exp2, cur, tmp []byte }

// c08BracketSpanAtLimit is the structural fingerprint of known finding F3: the document has open brackets whose span in
// the source, from the first '[' to the last one, crosses at least one line ending and lies within the few bytes by which
// k levels of "> " prefixes stretch it around the parser's 998-byte pending-bracket limit.
func c08BracketSpanAtLimit(d []byte, k int) bool {
	first, last := bytes.IndexByte(d, '['), bytes.LastIndexByte(d, '[')
	if first < 0 || last <= first {
		return false
	}
	nl := bytes.Count(d[first:last], []byte("\n"))
	if nl == 0 {
		return false
	}
	span := last + 1 - first
	return span <= 1000 && span >= 998-2*k*nl-2
}

// lastBlockKind names the kind of the first top-level block whose rendering differs is hard to know; we use the
// kinds of the top-level blocks of D as the structural fingerprint.
func lastBlockKind(cv *core.Conv, d []byte) string {
	doc, pan := cv.Parse(d)
	if pan != nil || doc == nil {
		return "?"
	}
	seen := map[string]bool{}
	out := ""
	for c := doc.FirstChild(); c != nil; c = c.NextSibling() {
		k := c.Kind().String()
		if !seen[k] {
			seen[k] = true
			if out != "" {
				out += ","
			}
			out += k
		}
	}
	return out
}

// runC08SharedContext: D and its quoted form converted one after the other with ONE parser.Context handed in through
// parser.WithContext. Link reference definitions legitimately survive in a reused context, but D and "> "D define the
// same labels, so the wrapped rendering must still come out.
func runC08SharedContext(r *core.Run) {
	var docs [][]byte
	for _, d := range TableDocs() {
		docs = append(docs, d)
	}
	for _, e := range Seeds(r) {
		docs = append(docs, []byte(e.Markdown))
	}
	docs = append(docs, c12StructuredDocs(r.Quick())...)
	for _, cn := range []string{"gfm", "gfm+unsafe+xhtml", "core"} {
		cfg := core.MustCfg(cn)
		s := r.Sub("shared-context/"+cn, fmt.Sprintf("%d documents (small tables with every pair of cell contents, the spec examples and the repository's test-case sources, the structured corpus): D and then '> '-prefixed D converted on one instance with one parser.Context passed through parser.WithContext, under %s: the second output is the first wrapped in a block quote", len(docs), cn))
		s.Planned = int64(len(docs))
		s.Bound = fmt.Sprintf("%d documents", len(docs))
		complete := core.ForEachIndex(len(docs), core.Workers(), func(w int) func(int) {
			md := cfg.New()
			var b1, b2 bytes.Buffer
			var q []byte
			return func(i int) {
				d := docs[i]
				if blank(d) || bytes.IndexByte(d, '\t') >= 0 || bytes.IndexByte(d, '\r') >= 0 {
					return
				}
				q = quotePrefix(q, d)
				pc := parser.NewContext()
				b1.Reset()
				b2.Reset()
				var pan any
				var e1, e2 error
				func() {
					defer func() { pan = recover() }()
					e1 = md.Convert(d, &b1, parser.WithContext(pc))
					e2 = md.Convert(q, &b2, parser.WithContext(pc))
				}()
				s.Evals.Add(2)
				hist := []string{"pc := parser.NewContext()", "Convert(" + core.Q(d) + ", WithContext(pc))", "Convert(" + core.Q(q) + ", WithContext(pc))"}
				if pan != nil || e1 != nil || e2 != nil {
					s.Violate("convert-failed:shared-context", cfg.String(), d, hist, fmt.Sprint("panic=", pan, " err=", e1, e2), "", "")
					md = cfg.New()
					return
				}
				want := string(bqOpen) + b1.String() + string(bqClose)
				if b2.String() != want {
					sig := "quote-wrap-differs:shared-context"
					if c08BracketSpanAtLimit(d, 1) {
						sig = "quote-wrap-differs:pending-bracket-span-at-998-limit"
					}
					s.Violate(sig, cfg.String(), d, hist, "with one parser.Context for both conversions, the '> '-prefixed document does not wrap the same content", want, b2.String())
				}
				s.Distinct(core.Hash(b1.Bytes()))
				if i%(len(docs)/5+1) == 0 {
					s.AddSample(core.Q(d))
				}
			}
		}, r.Expired)
		if !complete {
			s.Incomplete("internal deadline reached")
		}
		s.States.Store(s.Evals.Load())
		s.Transitions.Store(s.Evals.Load())
		s.Done()
	}
}

// runC08Depth: documents nested to EVERY depth 1..maxD (block quotes; bullet lists, two containers per level): whatever
// is limited or cached per nesting level is crossed by the prefixed document one level before the plain one.
func runC08Depth(r *core.Run) {
	maxD := core.Pick(r, 530, 1100)
	leaves := []string{"# t", "a", "- i", "```\nc\n```", "<div>"}
	var docs [][]byte
	for n := 1; n <= maxD; n++ {
		for _, l := range leaves {
			pre := strings.Repeat("> ", n)
			docs = append(docs, []byte(pre+strings.ReplaceAll(l, "\n", "\n"+pre)+"\n"))
		}
		if n <= maxD/2 {
			var b strings.Builder
			for i := 0; i < n; i++ {
				b.WriteString(strings.Repeat("  ", i) + "- l\n")
			}
			ind := strings.Repeat("  ", n)
			docs = append(docs, []byte(b.String()+ind+"> - item\n"), []byte(b.String()+ind+"# t\n"))
		}
	}
	for _, cn := range []string{"core", "gfm+unsafe"} {
		docsSub(r, "depth-ladder/"+cn, fmt.Sprintf("block quotes nested to every depth 1..%d around a heading, a paragraph, a list item, a fenced code block and an HTML block; bullet lists nested to every depth 1..%d around a quoted item and a heading; under %s: prefixing wraps the same content", maxD, maxD/2, cn),
			core.MustCfg(cn), docs, func(s *core.Sub, cv *core.Conv, w []byte) {
				st := &c08State{}
				c08Case(s, cv, w, 1, st)
			})
	}
}

func runC08(r *core.Run) {
	runC08Depth(r)
	runC08SharedContext(r)
	depth := 3
	type job struct {
		name string
		toks []string
		nq   int
		nt   int
		cfgs []string
	}
	noTabCR := func(t string) bool { return bytes.ContainsAny([]byte(t), "\t\r") }
	jobs := []job{
		{"block", core.ABlock, 5, 6, []string{"core", "gfm+unsafe", "core+unsafe+xhtml"}},
		{"html", core.AHTML, 4, 5, []string{"core+unsafe", "core", "gfm+unsafe+xhtml"}},
		{"inline", core.AInline, 4, 5, []string{"core+unsafe", "gfm"}},
		{"ext", core.AExt, 4, 5, []string{"gfm", "gfm+unsafe+xhtml"}},
		{"bytes", core.Without(core.ABytes, noTabCR), 4, 5, []string{"core", "gfm+unsafe"}},
	}
	for _, j := range jobs {
		n := core.Pick(r, j.nq, j.nt)
		for _, cn := range j.cfgs {
			cfg := core.MustCfg(cn)
			wordsSub(r, fmt.Sprintf("words-%s/%s", j.name, cn),
				fmt.Sprintf("for every non-blank tab/CR-free word D under %s: R(prefix^k(D)) == (<blockquote>\\n)^k R(D) (</blockquote>\\n)^k for k=1..%d; non-trivial = D non-blank, distinct = digest of R(D)", cn, depth),
				j.toks, n, func(s *core.Sub, w int) func([]byte) uint64 {
					cv := core.NewConv(cfg)
					st := &c08State{}
					return func(word []byte) uint64 { return c08Case(s, cv, word, depth, st) }
				})
		}
	}
	// spec examples: expected side from spec.json, not from goldmark
	{
		cfg := core.MustCfg("core+unsafe+xhtml")
		ex := Spec(r)
		s := r.Sub("spec-expected", "every tab/CR-free official example: R(prefix^k(markdown)) must equal spec.json's html wrapped k times (k=1..3); examples whose plain rendering differs from spec.json byte-for-byte are skipped and counted")
		cv := core.NewConv(cfg)
		skipped := 0
		var tmp, cur, exp []byte
		for _, e := range ex {
			d := []byte(e.Markdown)
			if blank(d) || bytes.ContainsAny(d, "\t\r") {
				skipped++
				continue
			}
			base, ok := mustConvert(s, cv, d)
			if !ok || string(base) != e.HTML {
				skipped++
				continue
			}
			cur = append(cur[:0], d...)
			exp = append(exp[:0], e.HTML...)
			for k := 1; k <= depth; k++ {
				tmp = quotePrefix(tmp, cur)
				cur, tmp = tmp, cur
				exp = []byte("<blockquote>\n" + string(exp) + "</blockquote>\n")
				got, ok := mustConvert(s, cv, cur)
				s.Evals.Add(1)
				if ok && !bytes.Equal(got, exp) {
					s.Violate(fmt.Sprintf("spec-quote-wrap-differs:depth%d:%s", k, lastBlockKind(cv, d)), cfg.String(), d, nil,
						fmt.Sprintf("spec example %d prefixed %d time(s): %s", e.Example, k, core.Q(cur)), string(exp), string(got))
					break
				}
			}
			s.Distinct(core.Hash(base))
			if e.Example%80 == 0 {
				s.AddSample(fmt.Sprintf("example %d: %s", e.Example, core.Q(d)))
			}
		}
		s.Extra["examples_skipped"] = skipped
		s.States.Store(s.Evals.Load())
		s.Transitions.Store(s.Evals.Load())
		s.Done()
	}
	for _, cn := range []string{"gfm+unsafe", "core"} {
		st := &c08StatePool{}
		nbhdSub(r, "nbhd-spec/"+cn, core.MustCfg(cn), func(s *core.Sub, cv *core.Conv, w []byte) {
			c08Case(s, cv, w, 2, st.get(cv))
		})
		st4 := &c08StatePool{}
		lengthSub(r, "lengths/"+cn, core.MustCfg(cn), core.Pick(r, 1100, 2200), func(s *core.Sub, cv *core.Conv, w []byte) {
			c08Case(s, cv, w, 1, st4.get(cv))
		})
		st3 := &c08StatePool{}
		replSub(r, "replication/"+cn, core.MustCfg(cn), core.Pick(r, 150, 300), func(s *core.Sub, cv *core.Conv, w []byte) {
			c08Case(s, cv, w, 1, st3.get(cv))
		})
		st2 := &c08StatePool{}
		nestSub(r, "nesting/"+cn, core.MustCfg(cn), core.Pick(r, 3, 4), func(s *core.Sub, cv *core.Conv, w []byte) {
			c08Case(s, cv, w, 2, st2.get(cv))
		})
		st5 := &c08StatePool{}
		corpusSub(r, "structured-corpus/"+cn, core.MustCfg(cn), func(d []byte) bool { return !bytes.ContainsAny(d, "\t\r") && len(bytes.TrimSpace(d)) > 0 }, func(s *core.Sub, cv *core.Conv, w []byte) {
			c08Case(s, cv, w, 1, st5.get(cv))
		})
	}
}

// c08StatePool hands one scratch state to each converter (one converter per worker).
type c08StatePool struct {
	mu sync.Mutex
	m  map[*core.Conv]*c08State
}

func (p *c08StatePool) get(cv *core.Conv) *c08State {
	p.mu.Lock()
	defer p.mu.Unlock()
	if p.m == nil {
		p.m = map[*core.Conv]*c08State{}
	}
	st := p.m[cv]
	if st == nil {
		st = &c08State{}
		p.m[cv] = st
	}
	return st
}

func replayC08(r *core.Run, v *core.Violation) {
	cfg, err := core.ParseCfg(v.Cfg)
	if err != nil {
		fmt.Println(err)
		return
	}
	s := r.Sub(v.Sub, "replay of one input")
	c08Case(s, core.NewConv(cfg), v.Input(), 3, &c08State{})
	s.Done()
}
