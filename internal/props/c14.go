package props

import (
	"bufio"
	"bytes"
	"context"
	"errors"
	"fmt"
	"github.com/yuin/goldmark/ast"
	"github.com/yuin/goldmark/renderer"
	"github.com/yuin/goldmark/text"
	"github.com/yuin/goldmark/util"
	"io"
	"os"
	"strings"
	"syscall"

	"verif/internal/core"
)

func init() {
	register(&Check{ID: "C14", Level: "fault_enumeration", QuickS: 200, ThorS: 1800, Run: runC14, Replay: replayC14})
}

var errSentinel = errors.New("verif: injected write failure")

// failWriter accepts exactly k bytes in total, then fails: permanently (every later call returns the sentinel), or, when
// transient is set, only the call that crosses the limit fails and later calls succeed again (a full disk that was
// cleaned up, a fixed-capacity buffer that was drained). before holds the bytes accepted before the first failure.
type failWriter struct {
	k         int
	err       error // the error the writer fails with (errSentinel when nil)
	transient bool
	failed    bool
	before    []byte
	calls     int
}

func (f *failWriter) failure() error {
	if f.err != nil {
		return f.err
	}
	return errSentinel
}

// c14WellKnown: errors a real destination fails with (a closed pipe or file, a broken connection, a cancelled request):
// the error the caller gets back must wrap exactly what the writer returned, whatever it is.
var c14WellKnown = []error{io.ErrClosedPipe, os.ErrClosed, io.EOF, io.ErrShortWrite, syscall.EPIPE, context.Canceled, fmt.Errorf("write tcp: %w", os.ErrDeadlineExceeded)}

func (f *failWriter) Write(p []byte) (int, error) {
	f.calls++
	if f.failed {
		if f.transient {
			return len(p), nil
		}
		return 0, f.failure()
	}
	room := f.k - len(f.before)
	if room >= len(p) {
		f.before = append(f.before, p...)
		return len(p), nil
	}
	if room < 0 {
		room = 0
	}
	f.before = append(f.before, p[:room]...)
	f.failed = true
	return room, f.failure()
}

// richWriter is a destination that also offers WriteByte / WriteString / WriteRune, as *bytes.Buffer and many
// application writers do, but is NOT a util.BufWriter (no Flush/Available/Buffered).
type richWriter struct{ f *failWriter }

func (r richWriter) Write(p []byte) (int, error)       { return r.f.Write(p) }
func (r richWriter) WriteString(s string) (int, error) { return r.f.Write([]byte(s)) }
func (r richWriter) WriteByte(c byte) error {
	_, err := r.f.Write([]byte{c})
	return err
}
func (r richWriter) WriteRune(c rune) (int, error) { return r.f.Write([]byte(string(c))) }

var c14Variants = []string{"plain io.Writer", "caller bufio.Writer(16)", "io.Writer, transient failure", "writer with WriteByte/WriteString/WriteRune", "same, transient failure", "plain io.Writer, with a user node renderer that flushes after each paragraph and returns the error it gets",
	"plain io.Writer, through Parser().Parse + Renderer().Render", "writer with WriteByte/WriteString/WriteRune, through Parse + Render", "caller bufio.Writer(16), through Parse + Render",
	"plain io.Writer failing with io.ErrClosedPipe", "… os.ErrClosed", "… io.EOF", "… io.ErrShortWrite", "… syscall.EPIPE", "… context.Canceled", "… a wrapped os.ErrDeadlineExceeded"}

// c14Flusher is a user-supplied node renderer for paragraphs that, unlike the built-in ones, looks at what the buffered
// writer reports: it flushes when it leaves a paragraph and hands a failure back to the walk.
type c14Flusher struct{}

func (c14Flusher) RegisterFuncs(reg renderer.NodeRendererFuncRegisterer) {
	reg.Register(ast.KindParagraph, func(w util.BufWriter, source []byte, n ast.Node, entering bool) (ast.WalkStatus, error) {
		if entering {
			_, _ = w.WriteString("<p>")
			return ast.WalkContinue, nil
		}
		_, _ = w.WriteString("</p>\n")
		if err := w.Flush(); err != nil {
			return ast.WalkStop, err
		}
		return ast.WalkContinue, nil
	})
}

// c14Case runs one faulted conversion.
func c14Case(s *core.Sub, cfg core.Cfg, src, ref []byte, k, variant int) {
	md := cfg.New()
	if variant == 5 {
		md.Renderer().AddOptions(renderer.WithNodeRenderers(util.Prioritized(c14Flusher{}, 1)))
		var good bytes.Buffer
		if err := md.Convert(src, &good); err != nil {
			s.Violate("error-without-failure:v5", cfg.String(), src, nil, "healthy writer, yet Convert returned "+err.Error(), "nil", err.Error())
			return
		}
		ref = good.Bytes()
		if k > len(ref)+1 {
			k = len(ref) + 1
		}
	}
	fw := &failWriter{k: k, transient: variant == 2 || variant == 4}
	if variant >= 9 {
		fw.err = c14WellKnown[variant-9]
	}
	var w io.Writer = fw
	switch variant {
	case 1, 8:
		w = bufio.NewWriterSize(fw, 16)
	case 3, 4, 7:
		w = richWriter{fw}
	}
	var err error
	var pan any
	func() {
		defer func() { pan = recover() }()
		if variant >= 6 {
			doc := md.Parser().Parse(text.NewReader(src))
			err = md.Renderer().Render(w, src, doc)
			return
		}
		err = md.Convert(src, w)
	}()
	ops := map[string]any{"fail_after_bytes": k, "variant": c14Variants[variant], "output_len": len(ref)}
	vs := fmt.Sprintf("v%d", variant)
	switch {
	case pan != nil:
		s.Violate("panic:"+vs, cfg.String(), src, ops, fmt.Sprintf("Convert panicked with a writer failing after %d bytes: %v", k, pan), "error return", "panic")
	case k < len(ref) && err == nil:
		s.Violate("nil-error-on-failed-writer:"+vs, cfg.String(), src, ops, fmt.Sprintf("writer failed after %d of %d bytes but Convert returned nil", k, len(ref)), "non-nil error", "nil")
	case k < len(ref) && !errors.Is(err, fw.failure()):
		s.Violate("error-not-wrapping-writer-error:"+vs, cfg.String(), src, ops, "returned error does not wrap the writer's error: "+err.Error(), fw.failure().Error(), err.Error())
	case k >= len(ref) && err != nil:
		s.Violate("error-without-failure:"+vs, cfg.String(), src, ops, "writer never failed but Convert returned "+err.Error(), "nil", err.Error())
	}
	want := ref
	if k < len(ref) {
		want = ref[:k]
	}
	if pan == nil && !bytes.Equal(fw.before, want) {
		s.Violate("accepted-bytes-not-prefix:"+vs, cfg.String(), src, ops, fmt.Sprintf("bytes accepted before the failure (%d) are not the first %d bytes of the reference output", len(fw.before), len(want)), string(want), string(fw.before))
	}
	s.Evals.Add(1)
	// history: the conversion that follows a failed one, on the same instance and goroutine, must not be affected by
	// it: a healthy writer receives exactly the output, a failing one a prefix of it
	if pan == nil && k < len(ref) {
		for _, k2 := range []int{1 << 30, k / 2} {
			fw2 := &failWriter{k: k2}
			var w2 io.Writer = fw2
			if variant >= 3 {
				w2 = richWriter{fw2}
			}
			var err2 error
			var pan2 any
			func() {
				defer func() { pan2 = recover() }()
				err2 = md.Convert(src, w2)
			}()
			want2 := ref
			if k2 < len(ref) {
				want2 = ref[:k2]
			}
			s.Evals.Add(1)
			if pan2 != nil || !bytes.Equal(fw2.before, want2) || (k2 >= len(ref)) != (err2 == nil) {
				s.Violate("conversion-after-a-failed-one:"+vs, cfg.String(), src, map[string]any{"first_fails_after": k, "second_fails_after": k2, "variant": c14Variants[variant]},
					fmt.Sprintf("after a conversion whose writer failed at %d, the next conversion on the same instance (writer limit %d) delivered %d bytes that are not the expected %d-byte prefix, err=%v panic=%v", k, k2, len(fw2.before), len(want2), err2, pan2), string(want2), string(fw2.before))
				break
			}
		}
	}
}

func c14Doc(s *core.Sub, cfg core.Cfg, src []byte, stride int) {
	ref0, err, pan := core.NewConv(cfg).Convert(src)
	if err != nil || pan != nil {
		return
	}
	ref := append([]byte{}, ref0...)
	for variant := 0; variant < len(c14Variants); variant++ {
		for k := 0; k < len(ref); k += stride {
			c14Case(s, cfg, src, ref, k, variant)
		}
		c14Case(s, cfg, src, ref, len(ref), variant)
		c14Case(s, cfg, src, ref, len(ref)+1, variant)
	}
	s.States.Add(1)
	s.Distinct(core.Hash(ref))
}

func runC14(r *core.Run) {
	runC14Phases(r)
	alpha := core.Union(core.ABlock, core.AExt)
	n := core.Pick(r, 2, 3)
	for _, cn := range []string{"core", "all+autoid+attr"} {
		cfg := core.MustCfg(cn)
		wordsSub(r, "words/"+cn, fmt.Sprintf("for each word: every byte offset k in [0,len(out)+1] at which the writer starts failing (short write + sentinel), in 16 writer/entry variants (seven of them a plain writer failing with a well-known error: closed pipe, closed file, EOF, short write, EPIPE, cancelled context, wrapped deadline; plain io.Writer, caller-supplied bufio.Writer(16), a writer that also has WriteByte/WriteString/WriteRune; the plain and the rich writer also with a transient failure after which calls succeed again; a user node renderer that returns the flush error; plain, rich and bufio writers through Parser().Parse + Renderer().Render instead of Convert), under %s: error wraps the sentinel, accepted bytes == out[:k]; distinct = reference output digest", cn),
			alpha, n, func(s *core.Sub, w int) func([]byte) uint64 {
				return func(word []byte) uint64 {
					c14Doc(s, cfg, word, 1)
					return 0
				}
			})
	}
	ex := Spec(r)
	for _, cn := range []string{"core+unsafe+xhtml", "all"} {
		cfg := core.MustCfg(cn)
		s := r.Sub("spec/"+cn, fmt.Sprintf("all %d spec examples × every failing offset × 16 writer/entry variants under %s", len(ex), cn))
		core.ForEachIndex(len(ex), core.Workers(), func(w int) func(int) {
			return func(i int) {
				c14Doc(s, cfg, []byte(ex[i].Markdown), 1)
				if i%100 == 0 {
					s.AddSample(fmt.Sprintf("spec example %d, every k", ex[i].Example))
				}
			}
		}, r.Expired)
		s.Transitions.Store(s.Evals.Load())
		s.Done()
	}
	// large documents: output beyond bufio's 4096-byte default buffer
	var big []string
	for _, span := range [][2]int{{0, 120}, {200, 330}, {450, 652}} {
		var b strings.Builder
		for _, e := range ex[span[0]:min(span[1], len(ex))] {
			b.WriteString(e.Markdown)
			b.WriteString("\n\n")
		}
		big = append(big, b.String())
	}
	big = append(big, strings.Repeat("|a|b|\n|-|:-|\n|c[^1]|~~d~~ www.a.bc|\n\n[^1]: note *x*\n\n- [ ] t\n\nterm\n: def\n\n", 40))
	for _, cn := range []string{"core", "all"} {
		cfg := core.MustCfg(cn)
		s := r.Sub("large/"+cn, fmt.Sprintf("%d documents with 5–40 KB of output × every failing offset (stride 1 thorough / 7 quick, plus every offset within 64 bytes of each multiple of 4096) × 2 variants under %s", len(big), cn))
		type item struct {
			doc int
			lo  int
			hi  int
		}
		var items []item
		refs := make([][]byte, len(big))
		for i, d := range big {
			out, _, _ := core.NewConv(cfg).Convert([]byte(d))
			refs[i] = append([]byte{}, out...)
			for lo := 0; lo <= len(refs[i])+1; lo += 512 {
				items = append(items, item{i, lo, min(lo+512, len(refs[i])+2)})
			}
			s.Extra[fmt.Sprintf("doc%d_output_bytes", i)] = len(refs[i])
		}
		stride := core.Pick(r, 7, 1)
		complete := core.ForEachIndex(len(items), core.Workers(), func(w int) func(int) {
			return func(ii int) {
				it := items[ii]
				src := []byte(big[it.doc])
				for k := it.lo; k < it.hi; k++ {
					near := k%4096 < 64 || k%4096 > 4032
					if k%stride != 0 && !near {
						continue
					}
					c14Case(s, cfg, src, refs[it.doc], k, 0)
					c14Case(s, cfg, src, refs[it.doc], k, 1)
				}
			}
		}, r.Expired)
		if !complete {
			s.Incomplete("internal deadline reached")
		}
		if stride != 1 {
			s.Incomplete(fmt.Sprintf("quick tier samples every %dth offset of the large documents deterministically (all offsets near buffer boundaries); the small documents are exhaustive", stride))
		}
		for i := range big {
			s.Distinct(core.Hash(refs[i]))
			s.AddSample(fmt.Sprintf("large doc %d: %d source bytes, %d output bytes", i, len(big[i]), len(refs[i])))
		}
		s.States.Store(int64(len(big)))
		s.Transitions.Store(s.Evals.Load())
		s.Done()
	}
}

// runC14Phases: which write call meets the failing flush depends on what the renderer is writing when its 4096-byte
// buffer fills, i.e. on the phase of the document against the buffer boundaries. Each base document is shifted by a
// leading paragraph of EVERY length 0..maxP, and the writer fails inside each buffer-full flush (and at 0 and at the end).
func runC14Phases(r *core.Run) {
	maxP := core.Pick(r, 64, 512)
	var row strings.Builder
	for i := 0; i < 120; i++ {
		fmt.Fprintf(&row, "|l%d|`c\\|%d`|*r%d*|\n", i, i, i)
	}
	bases := []string{
		"|a|b|c|\n|:-|:-:|-:|\n" + row.String(),
		strings.Repeat("# h {#i .c}\n\n> q *e* `c` [l](/u \"t\") ![i](/s)\n\n- [x] t\n\n```go\nx\n```\n\nx[^1] ~~s~~ www.a.bc \"q\"\n\n[^1]: n\n\nT\n: d\n\n***\n\n", 25),
	}
	for _, cn := range []string{"gfm+align=attr", "gfm+xhtml", "all+attr+autoid"} {
		cfg := core.MustCfg(cn)
		s := r.Sub("buffer-phases/"+cn, fmt.Sprintf("%d base documents (a table of 120 rows with three aligned columns; 25 repetitions of a kitchen-sink block) × a leading paragraph of EVERY length 0..%d × the writer failing inside every 4096-byte flush (at 0, at 4096m-1 for every m, at the last byte) × plain and rich writers and a plain writer failing with each of seven well-known errors under %s", len(bases), maxP, cn))
		type item struct{ b, p int }
		var items []item
		for b := range bases {
			for p := 0; p <= maxP; p++ {
				items = append(items, item{b, p})
			}
		}
		s.Bound = fmt.Sprintf("%d documents × every buffer flush × 2 writers", len(items))
		core.ForEachIndex(len(items), core.Workers(), func(w int) func(int) {
			cv := core.NewConv(cfg)
			return func(ii int) {
				it := items[ii]
				src := []byte(strings.Repeat("p", it.p) + "\n\n" + bases[it.b])
				out, _, _ := cv.Convert(src)
				ref := append([]byte{}, out...)
				ks := []int{0, len(ref) - 1}
				for m := 1; 4096*m-1 < len(ref); m++ {
					ks = append(ks, 4096*m-1)
				}
				for _, k := range ks {
					if k < 0 {
						continue
					}
					c14Case(s, cfg, src, ref, k, 0)
					c14Case(s, cfg, src, ref, k, 3)
					for v := 9; v < len(c14Variants); v++ {
						c14Case(s, cfg, src, ref, k, v)
					}
				}
				s.Distinct(core.Hash(src))
				if ii%(len(items)/4+1) == 0 {
					s.AddSample(fmt.Sprintf("base %d shifted by a %d-letter paragraph: %d output bytes", it.b, it.p, len(ref)))
				}
			}
		}, r.Expired)
		s.States.Store(int64(len(items)))
		s.Transitions.Store(s.Evals.Load())
		s.Done()
	}
}

func replayC14(r *core.Run, v *core.Violation) {
	cfg, err := core.ParseCfg(v.Cfg)
	if err != nil {
		fmt.Println(err)
		return
	}
	s := r.Sub(v.Sub, "replay: every failing offset of one document")
	c14Doc(s, cfg, v.Input(), 1)
	s.Done()
}
