package props

import (
	"fmt"
	"sort"
	"strings"

	"github.com/yuin/goldmark"
	"github.com/yuin/goldmark/ast"
	"github.com/yuin/goldmark/parser"
	"github.com/yuin/goldmark/text"
	"github.com/yuin/goldmark/util"

	"verif/internal/core"
)

// Probes that share a trigger byte with built-in block parsers. The built-ins on '-' are the Setext heading parser (100,
// needs an open paragraph with content), the thematic break parser (200) and the list parsers (300/400, which decline
// "---"); on '=' only the Setext parser; the paragraph parser (1000, no trigger) takes whatever is left. A probe registered
// on '-' and '=' with a priority below, between or above those must get its turn by priority alone whenever it is eligible
// (a parser that cannot interrupt a paragraph is not eligible while one is open; once a paragraph made only of reference
// definitions has dissolved, none is open).

type c20SB struct {
	name      string
	accept    bool
	interrupt bool
}

func (b *c20SB) Trigger() []byte { return []byte{'-', '='} }
func (b *c20SB) Open(parent ast.Node, reader text.Reader, pc parser.Context) (ast.Node, parser.State) {
	if !b.accept {
		return nil, parser.NoChildren
	}
	_, seg := reader.PeekLine()
	reader.Advance(seg.Len() - 1)
	n := &c20Block{kind: c20KindBlock}
	n.SetAttributeString("by", []byte(b.name))
	return n, parser.NoChildren
}
func (b *c20SB) Continue(node ast.Node, reader text.Reader, pc parser.Context) parser.State {
	return parser.Close
}
func (b *c20SB) Close(node ast.Node, reader text.Reader, pc parser.Context) {}
func (b *c20SB) CanInterruptParagraph() bool                                { return b.interrupt }
func (b *c20SB) CanAcceptIndentedLine() bool                                { return false }

type c20SBSpec struct {
	Name      string
	Prio      int
	Accept    bool
	Interrupt bool
}

// c20SharedWinner is the model: who takes the line `line` ("---" or "===") that follows `first`.
func c20SharedWinner(first, line string, probes []c20SBSpec) string {
	openPara := first != ""
	dissolves := strings.HasPrefix(first, "[")
	type cand struct {
		prio int
		name string
		sb   *c20SBSpec
	}
	var cs []cand
	for i := range probes {
		cs = append(cs, cand{probes[i].Prio, probes[i].Name, &probes[i]})
	}
	cs = append(cs, cand{100, "setext", nil})
	if line[0] == '-' {
		cs = append(cs, cand{200, "hr", nil})
	}
	sort.SliceStable(cs, func(i, j int) bool { return cs[i].prio < cs[j].prio })
	for pass := 0; pass < 2; pass++ {
		again := false
		for _, c := range cs {
			switch {
			case c.sb != nil:
				if openPara && !c.sb.Interrupt {
					continue
				}
				if c.sb.Accept {
					return c.name
				}
			case c.name == "setext":
				if !openPara {
					continue
				}
				if dissolves {
					openPara, again = false, true // the paragraph was only definitions: it is gone, the line is looked at afresh
				} else {
					return "setext"
				}
			case c.name == "hr":
				return "hr"
			}
			if again {
				break
			}
		}
		if !again {
			break
		}
	}
	return "paragraph"
}

func c20SharedObserve(md goldmark.Markdown, doc string) (winner string, pan any) {
	defer func() {
		if p := recover(); p != nil {
			pan = p
		}
	}()
	root := md.Parser().Parse(text.NewReader([]byte(doc)))
	last := root.LastChild()
	if last == nil {
		return "nothing", nil
	}
	switch last.Kind() {
	case c20KindBlock:
		by, _ := last.AttributeString("by")
		return string(by.([]byte)), nil
	case ast.KindHeading:
		return "setext", nil
	case ast.KindThematicBreak:
		return "hr", nil
	case ast.KindParagraph:
		return "paragraph", nil
	}
	return last.Kind().String(), nil
}

func runC20Shared(r *core.Run) {
	prios := []int{50, 150, 250, 1050}
	firsts := []string{"", "para", "[foo]: /url", "[foo]: /url\n[bar]: /v"}
	lines := []string{"---", "==="}
	var cfgs [][]c20SBSpec
	for _, p1 := range prios {
		for m1 := 0; m1 < 4; m1++ {
			one := c20SBSpec{"SB1", p1, m1&1 != 0, m1&2 != 0}
			cfgs = append(cfgs, []c20SBSpec{one})
			for _, p2 := range prios {
				if p2 == p1 {
					continue
				}
				for m2 := 0; m2 < 4; m2++ {
					cfgs = append(cfgs, []c20SBSpec{one, {"SB2", p2, m2&1 != 0, m2&2 != 0}})
				}
			}
		}
	}
	s := r.Sub("priority-block-shared-trigger", fmt.Sprintf("one or two probe block parsers on the triggers '-' and '=' (shared with the built-in Setext heading parser at 100 and thematic break parser at 200), priorities from %v, accepting or declining, able or unable to interrupt a paragraph, registered in both orders; documents: the line '---' or '===' alone, after a paragraph line, after one and after two reference definitions (a paragraph that dissolves). The block that takes the line must be the one the priority rule names: the smallest-priority eligible acceptor", prios))
	s.Bound = fmt.Sprintf("%d probe configurations × 2 orders × %d documents", len(cfgs), len(firsts)*len(lines))
	core.ForEachIndex(len(cfgs), core.Workers(), func(w int) func(int) {
		return func(i int) {
			for order := 0; order < 2; order++ {
				ps := append([]c20SBSpec{}, cfgs[i]...)
				if order == 1 {
					if len(ps) < 2 {
						continue
					}
					ps[0], ps[1] = ps[1], ps[0]
				}
				var opts []parser.Option
				for _, p := range ps {
					opts = append(opts, parser.WithBlockParsers(util.Prioritized(&c20SB{p.Name, p.Accept, p.Interrupt}, p.Prio)))
				}
				md := goldmark.New(goldmark.WithParserOptions(opts...))
				for _, f := range firsts {
					for _, l := range lines {
						doc := l + "\n"
						if f != "" {
							doc = f + "\n" + l + "\n"
						}
						want := c20SharedWinner(f, l, ps)
						got, pan := c20SharedObserve(md, doc)
						s.Evals.Add(1)
						if pan != nil {
							s.Violate("panic:block-shared", "", []byte(doc), []string{fmt.Sprintf("%+v", ps)}, fmt.Sprint(pan), want, "panic")
							continue
						}
						if got != want {
							s.Violate("order-differs-from-priority-model:block-shared", "", []byte(doc), []string{fmt.Sprintf("probes (in registration order) %+v", ps)},
								fmt.Sprintf("the line %q after %q was taken by %s, the priority rule names %s", l, f, got, want), want, got)
						}
						s.Distinct(core.Hash([]byte(got + "|" + doc)))
					}
				}
			}
		}
	}, r.Expired)
	s.States.Store(int64(len(cfgs)))
	s.Transitions.Store(s.Evals.Load())
	s.Done()
}
