package props

import (
	"bytes"
	"encoding/json"
	"fmt"
	"os"
	"os/exec"
	"path/filepath"
	"sort"
	"strings"
	"sync"
	"time"

	"verif/internal/core"
)

func init() {
	register(&Check{ID: "C07", QuickS: 400, ThorS: 3000, Run: runC07, Replay: replayC07, Workers: func(args []string) int {
		// vcheck C07 --worker prebuild: warm the build cache (instrumented explorer and -race binary), keep nothing
		b := c07Builder(core.NewRun("C07", "quick", time.Minute), true)
		defer b.cleanup()
		if b.err != "" {
			fmt.Println("prebuild failed:", core.Clip(b.err, 2000))
			return 2
		}
		fmt.Println("C07 prebuild ok", b.points)
		return 0
	}})
}

type c07Job struct {
	Scenario string
	Cfg      string
	Bound    int
	Gran     string
}

func (j c07Job) String() string {
	return fmt.Sprintf("%s/%s/bound%d/%s", j.Scenario, j.Cfg, j.Bound, j.Gran)
}

// shard result as printed by c07run (see cmd/c07run)
type c07Shard struct {
	Execs      int64             `json:"executions"`
	StepsTotal int64             `json:"steps_total"`
	MaxSteps   int               `json:"max_steps"`
	SeqSteps   int               `json:"sequential_steps"`
	Blocked    int64             `json:"executions_with_blocking"`
	NShapes    int               `json:"distinct_schedule_shapes"`
	NOutcomes  int               `json:"distinct_outcomes"`
	Harness    []string          `json:"harness_errors"`
	Violations []json.RawMessage `json:"violations"`
	Complete   bool              `json:"complete"`
	ByCost     map[string]int64  `json:"executions_by_preemptions"`
}

type c07Build struct {
	dir    string
	run    string
	race   string
	instr  string
	err    string
	points string
}

func goEnv() []string {
	return append(os.Environ(), "GOFLAGS=-mod=mod", "GOPROXY=off", "GOSUMDB=off", "GOTOOLCHAIN=local")
}

// c07Builder instruments the repository under test into a scratch directory and builds the explorer and the race binary.
func c07Builder(r *core.Run, withRace bool) *c07Build {
	b := &c07Build{}
	dir, err := os.MkdirTemp("", "vc07-")
	if err != nil {
		b.err = err.Error()
		return b
	}
	b.dir = dir
	modargs := strings.Fields(os.Getenv("VERIF_MODARGS"))
	sh := func(args ...string) (string, error) {
		cmd := exec.Command(args[0], args[1:]...)
		cmd.Dir = r.Verif
		cmd.Env = append(goEnv(), "VERIF_SHIM="+filepath.Join(r.Verif, "shim", "vsched", "vsched.go"))
		out, err := cmd.CombinedOutput()
		return string(out), err
	}
	goBuild := func(extra []string, out, pkg string) (string, error) {
		args := append([]string{"go", "build"}, modargs...)
		args = append(args, extra...)
		args = append(args, "-o", out, pkg)
		return sh(args...)
	}
	b.instr = filepath.Join(dir, "vinstr")
	if out, err := goBuild(nil, b.instr, "./cmd/vinstr"); err != nil {
		b.err = "building vinstr: " + out
		return b
	}
	out, err := sh(b.instr, r.Repo, dir)
	if err != nil {
		b.err = "instrumenting: " + out
		return b
	}
	b.points = strings.TrimSpace(out)
	b.run = filepath.Join(dir, "c07run")
	if out, err := goBuild([]string{"-tags", "verifsched", "-overlay", filepath.Join(dir, "overlay.json")}, b.run, "./cmd/c07run"); err != nil {
		b.err = "building the instrumented explorer: " + out
		return b
	}
	if withRace {
		b.race = filepath.Join(dir, "c07race")
		if out, err := goBuild([]string{"-race"}, b.race, "./cmd/c07race"); err != nil {
			b.err = "building the race binary: " + out
			return b
		}
	}
	return b
}

func (b *c07Build) cleanup() {
	if b.dir != "" {
		_ = os.RemoveAll(b.dir)
	}
}

func runC07(r *core.Run) {
	r.Level = "model_checking"
	b := c07Builder(r, true)
	defer b.cleanup()
	if b.err != "" {
		fmt.Println("BUILD-FAILED (instrumented tree does not build; no verdict)")
		fmt.Println(core.Clip(b.err, 3000))
		os.Exit(2)
	}
	fmt.Println("  instrumented:", b.points)

	var jobs []c07Job
	add := func(sc string, cfgs []string, bound int, gran string) {
		for _, c := range cfgs {
			jobs = append(jobs, c07Job{sc, c, bound, gran})
		}
	}
	three := []string{"core", "gfm", "all+cjk+autoid+attr"}
	rich := "all+cjk+autoid+attr"
	if r.Quick() {
		add("S0", []string{"core"}, 2, "stmt")
		add("S0", []string{"gfm", rich}, 2, "func")
		add("S1", three, 1, "stmt")
		add("S2", []string{"core", "gfm", rich}, 1, "func") // statement granularity for S2: the custom configuration below (a superset of rich)
		add("S3", []string{rich}, 1, "func")
		add("S4", []string{"core", rich}, 1, "stmt")
		add("S5", []string{"core", rich}, 1, "stmt")
		add("S6", []string{"core", rich}, 1, "stmt")
		add("S2", []string{"custom+autoid+attr+xhtml+hardwraps"}, 1, "stmt")
		add("S8", []string{rich}, 1, "func") // statement granularity in the thorough tier
		add("S9", []string{rich}, 1, "stmt")
		add("S10", []string{"all+cjk"}, 1, "stmt")
		add("S11", []string{rich}, 1, "func")
	} else {
		add("S0", three, 2, "stmt")
		add("S0", []string{"core", rich}, 3, "func")
		add("S1", three, 1, "stmt")
		add("S1", three, 2, "func")
		add("S2", three, 1, "stmt")
		add("S2", []string{rich}, 2, "func")
		add("S3", three, 1, "stmt")
		add("S4", three, 1, "stmt")
		add("S4", []string{"core"}, 2, "func")
		add("S5", three, 1, "stmt")
		add("S5", []string{"core", rich}, 2, "func")
		add("S6", three, 1, "stmt")
		add("S6", []string{"core"}, 2, "func")
		add("S1", []string{"all+unsafe+xhtml+hardwraps", "all+cjk+attr+unsafe"}, 1, "stmt")
		add("S2", []string{"custom+autoid+attr", "custom+unsafe+xhtml+hardwraps"}, 1, "stmt")
		add("S5", []string{"custom+autoid+attr"}, 1, "stmt")
		add("S8", []string{"core", rich, "custom+autoid+attr"}, 1, "stmt")
		add("S9", three, 1, "stmt")
		add("S10", []string{"core", "gfm", "all+cjk", "custom"}, 1, "stmt")
		add("S9", []string{"core"}, 2, "func")
		add("S11", []string{"core", rich}, 1, "stmt")
	}

	if only := os.Getenv("VERIF_C07_ONLY"); only != "" {
		// screening aid for tools/try_patch.sh: run only the named scenarios (never used by a registered check command)
		var kept []c07Job
		for _, j := range jobs {
			if strings.Contains(","+only+",", ","+j.Scenario+",") {
				kept = append(kept, j)
			}
		}
		jobs = kept
		fmt.Println("  SCREENING: only scenarios", only)
	}
	nsh := core.Workers()
	type task struct{ job, shard int }
	var tasks []task
	for ji := range jobs {
		for s := 0; s < nsh; s++ {
			tasks = append(tasks, task{ji, s})
		}
	}
	results := make([][]*c07Shard, len(jobs))
	errs := make([][]string, len(jobs))
	for i := range results {
		results[i] = make([]*c07Shard, nsh)
	}
	var mu sync.Mutex
	core.ForEachIndex(len(tasks), nsh, func(w int) func(int) {
		return func(ti int) {
			t := tasks[ti]
			j := jobs[t.job]
			left := int(time.Until(r.Deadline).Seconds())
			if left < 5 {
				left = 5
			}
			cmd := exec.Command(b.run, "explore", j.Scenario, j.Cfg, fmt.Sprint(j.Bound), fmt.Sprint(t.shard), fmt.Sprint(nsh), j.Gran, fmt.Sprint(left))
			cmd.Env = append(os.Environ(), "GOMAXPROCS=1")
			var stderr bytes.Buffer
			cmd.Stderr = &stderr
			out, err := cmd.Output()
			core.Progress.Add(1)
			var sr c07Shard
			if err != nil || json.Unmarshal(bytes.TrimSpace(out), &sr) != nil {
				mu.Lock()
				errs[t.job] = append(errs[t.job], fmt.Sprintf("shard %d: %v %s %s", t.shard, err, core.Clip(string(out), 300), core.Clip(stderr.String(), 1500)))
				mu.Unlock()
				return
			}
			results[t.job][t.shard] = &sr
		}
	}, nil)

	broken := false
	for ji, j := range jobs {
		s := r.Sub(j.String(), fmt.Sprintf("scenario %s under configuration %s: every schedule of the managed goroutines with at most %d preemption(s) at %s granularity (scheduling points before every %s of the instrumented library; switches where a goroutine ends or blocks on sync.Once are free and all explored); oracle: every call returns nil and exactly the bytes of its sequential run on a fresh instance, no panic, no deadlock, no runaway; package-level state is restored to its post-init value before each execution", j.Scenario, j.Cfg, j.Bound, map[string]string{"stmt": "statement", "func": "function-entry"}[j.Gran], map[string]string{"stmt": "statement", "func": "function body"}[j.Gran]))
		s.Bound = fmt.Sprintf("preemptions≤%d granularity=%s shards=%d", j.Bound, j.Gran, nsh)
		var execs, steps, blocked, shapes int64
		maxOutcomes := 0
		byCost := map[string]int64{}
		complete := true
		seq := 0
		for si, sr := range results[ji] {
			if sr == nil {
				complete = false
				continue
			}
			execs += sr.Execs
			steps += sr.StepsTotal
			blocked += sr.Blocked
			shapes += int64(sr.NShapes)
			seq = sr.SeqSteps
			if sr.NOutcomes > maxOutcomes {
				maxOutcomes = sr.NOutcomes
			}
			for k, v := range sr.ByCost {
				byCost[k] += v
			}
			complete = complete && sr.Complete
			for _, h := range sr.Harness {
				errs[ji] = append(errs[ji], fmt.Sprintf("shard %d: %s", si, h))
			}
			for _, raw := range sr.Violations {
				var v struct {
					Kind      string `json:"kind"`
					Thread    int    `json:"thread"`
					Detail    string `json:"detail"`
					Confirmed bool   `json:"confirmed_by_two_replays"`
					Expected  struct {
						Out string `json:"out"`
					} `json:"expected"`
					Actual struct {
						Out   string `json:"out"`
						Panic string `json:"panic"`
					} `json:"actual"`
				}
				_ = json.Unmarshal(raw, &v)
				var ops any
				_ = json.Unmarshal(raw, &ops)
				sig := v.Kind
				if v.Actual.Panic != "" {
					if i := strings.LastIndex(v.Actual.Panic, " @ "); i >= 0 {
						sig += ":" + v.Actual.Panic[i+3:]
					}
				}
				s.Violate(sig, j.Cfg, nil, ops, fmt.Sprintf("%s thread %d: %s (confirmed by two replays: %v)", j, v.Thread, v.Detail, v.Confirmed), v.Expected.Out, v.Actual.Out)
			}
		}
		s.Evals.Store(execs)
		s.States.Store(execs)
		s.Transitions.Store(steps)
		s.Extra["executions_by_preemptions"] = byCost
		s.Extra["executions_with_a_goroutine_blocked_on_once"] = blocked
		s.Extra["distinct_schedule_shapes"] = shapes
		s.Extra["distinct_outcomes_max_over_shards"] = maxOutcomes
		s.Extra["sequential_steps"] = seq
		s.Extra["instrumentation"] = b.points
		for i := int64(0); i < shapes && i < 64; i++ {
			s.Distinct(core.HashMix(uint64(ji), uint64(i)))
		}
		s.Distinct(core.Hash([]byte(j.String())))
		if len(errs[ji]) > 0 {
			broken = true
			s.Incomplete("harness errors: " + core.Clip(strings.Join(errs[ji], " | "), 1500))
			fmt.Println("  HARNESS-ERROR", j, core.Clip(strings.Join(errs[ji], " | "), 1500))
		}
		if !complete {
			s.Incomplete("internal deadline reached in at least one shard (or a shard failed)")
		}
		s.AddSample(fmt.Sprintf("%s: %d executions, %d scheduled steps, %d with blocking on sync.Once, by preemptions %v", j, execs, steps, blocked, byCost))
		s.Done()
	}
	c07Coverage(r, b)
	c07RacePass(r, b)
	if broken && r.ViolationCount() == 0 {
		fmt.Println("C07: the exploration harness reported errors (nondeterministic replay or crashed shard); no verdict")
		r.Finish()
		os.Exit(2)
	}
}

// c07RacePass runs the free-running -race companion pass (sampling; reported separately, never as 'exhaustive').
func c07RacePass(r *core.Run, b *c07Build) {
	s := r.Sub("race_pass", "NOT exhaustive — companion pass: the same scenario bodies as real goroutines released through a barrier in an uninstrumented -race build (the cooperative scheduler's hand-offs are happens-before edges and would hide every race), several processes per scenario so that process-wide first use is raced repeatedly, GOMAXPROCS in {2,4,16}; a race report or an output mismatch is a violation")
	s.Exhaustive = false
	s.Companion = true
	s.Notes = append(s.Notes, "sampling pass; the exhaustive part of this check is the schedule exploration above")
	type rt struct {
		sc, cfg string
		procs   int
	}
	var tasks []rt
	rounds := core.Pick(r, 20, 100)
	procs := core.Pick(r, 3, 8)
	for _, sc := range []string{"S1", "S2", "S4", "S5", "S6", "S7", "S8", "S9", "S10", "S11", "S12"} {
		for _, c := range []string{"core", "all+cjk+autoid+attr", "custom+autoid+attr+xhtml+hardwraps", "cjk-css3"} {
			if sc == "S7" && c != "core" || c[0] == 'c' && c[1] == 'u' && sc != "S2" && sc != "S5" && sc != "S12" {
				continue
			}
			if (c == "cjk-css3") != (sc == "S12") && !(sc == "S12" && c[0] == 'c' && c[1] == 'u') {
				continue
			}
			for p := 0; p < procs; p++ {
				tasks = append(tasks, rt{sc, c, []int{2, 4, 16}[p%3]})
			}
		}
	}
	core.ForEachIndex(len(tasks), core.Workers()/2, func(w int) func(int) {
		return func(i int) {
			t := tasks[i]
			if r.Expired() {
				return
			}
			cmd := exec.Command(b.race, t.sc, t.cfg, fmt.Sprint(rounds))
			cmd.Env = append(os.Environ(), fmt.Sprintf("GOMAXPROCS=%d", t.procs), "GORACE=halt_on_error=1 exitcode=66")
			out, err := cmd.CombinedOutput()
			core.Progress.Add(1)
			s.Evals.Add(int64(rounds))
			so := string(out)
			if strings.Contains(so, "WARNING: DATA RACE") {
				s.Violate("data-race:"+c07RaceSite(so), t.cfg, nil, map[string]any{"scenario": t.sc, "cfg": t.cfg, "gomaxprocs": t.procs, "report": core.Clip(so, 3000)}, "the race detector reported a data race in "+t.sc, "no data race", core.Clip(so, 1500))
			} else if strings.Contains(so, "MISMATCH") {
				s.Violate("free-running-output-mismatch", t.cfg, nil, map[string]any{"scenario": t.sc, "cfg": t.cfg, "report": core.Clip(so, 3000)}, "a goroutine's result differs from its sequential result in "+t.sc, "", core.Clip(so, 1500))
			} else if err != nil {
				s.Violate("free-running-crash", t.cfg, nil, map[string]any{"scenario": t.sc, "cfg": t.cfg, "report": core.Clip(so, 3000)}, fmt.Sprintf("race-pass process failed: %v", err), "", core.Clip(so, 1500))
			}
			s.Distinct(core.Hash([]byte(fmt.Sprint(t))))
		}
	}, nil)
	s.States.Store(int64(len(tasks)))
	s.Transitions.Store(s.Evals.Load())
	s.Bound = fmt.Sprintf("%d processes × %d rounds", len(tasks), rounds)
	s.AddSample(fmt.Sprintf("%d processes, %d rounds each", len(tasks), rounds))
	s.Done()
}

// c07RaceSite extracts the first two goldmark frames of a race report as a signature.
func c07RaceSite(rep string) string {
	var sites []string
	for _, ln := range strings.Split(rep, "\n") {
		ln = strings.TrimSpace(ln)
		if strings.HasPrefix(ln, "github.com/yuin/goldmark") {
			if j := strings.LastIndex(ln, "("); j > 0 {
				ln = ln[:j]
			}
			ln = strings.TrimPrefix(ln, "github.com/yuin/goldmark")
			dup := false
			for _, x := range sites {
				if x == ln {
					dup = true
				}
			}
			if !dup {
				sites = append(sites, ln)
			}
			if len(sites) == 2 {
				break
			}
		}
	}
	sort.Strings(sites)
	return strings.Join(sites, "+")
}

func replayC07(r *core.Run, v *core.Violation) {
	s := r.Sub(v.Sub, "replay of one schedule (run twice; outputs compared with the sequential reference)")
	if v.Sub == "race_pass" {
		fmt.Println("race-pass findings are not schedule replays; re-run ./run.sh C07 quick")
		s.Done()
		return
	}
	b := c07Builder(r, false)
	defer b.cleanup()
	if b.err != "" {
		fmt.Println("BUILD-FAILED", core.Clip(b.err, 2000))
		os.Exit(2)
	}
	raw, _ := json.Marshal(v.Ops)
	f := filepath.Join(b.dir, "replay.json")
	_ = os.WriteFile(f, raw, 0o644)
	cmd := exec.Command(b.run, "replay", f)
	cmd.Env = append(os.Environ(), "GOMAXPROCS=1")
	out, err := cmd.CombinedOutput()
	fmt.Print(string(out))
	s.Evals.Add(2)
	if err != nil || strings.Contains(string(out), "REPLAY-FAILS") {
		s.Violate(v.Sig, v.Cfg, nil, v.Ops, "replayed schedule fails: "+core.Clip(string(out), 1500), v.Expected, v.Actual)
	}
	s.Done()
}

// c07Coverage reports which instrumented functions the scenarios execute under the scheduler (a vacuity guard: shared
// state in a function no scenario reaches cannot be found by exploring schedules).
func c07Coverage(r *core.Run, b *c07Build) {
	s := r.Sub("function-coverage", "not a verdict: for the richest configuration, the instrumented functions executed by managed goroutines in the scenarios' default and reversed-start schedules; functions never executed are listed so that the drivers can be extended")
	s.Companion = true
	cmd := exec.Command(b.run, "cover", filepath.Join(b.dir, "funcs.json"), "all+cjk+autoid+attr")
	cmd.Env = append(os.Environ(), "GOMAXPROCS=1")
	out, err := cmd.Output()
	var rep struct {
		Total   int      `json:"functions_instrumented"`
		Managed int      `json:"executed_by_a_managed_goroutine"`
		Shared  int      `json:"executed_by_two_or_more_managed_goroutines"`
		Unm     int      `json:"executed_only_outside_the_scheduler"`
		Never   []string `json:"never_executed"`
	}
	if err == nil && json.Unmarshal(bytes.TrimSpace(out), &rep) == nil {
		s.Evals.Store(int64(rep.Total))
		s.Notes = append(s.Notes, fmt.Sprintf("%d functions instrumented; %d executed by a managed goroutine (%d by two or more); %d only outside the scheduler (set-up); %d never", rep.Total, rep.Managed, rep.Shared, rep.Unm, len(rep.Never)))
		s.Notes = append(s.Notes, "never executed: "+core.Clip(strings.Join(rep.Never, " "), 6000))
		fmt.Printf("  coverage: %d/%d functions run under the scheduler, %d by ≥2 goroutines, %d never executed\n", rep.Managed, rep.Total, rep.Shared, len(rep.Never))
	} else {
		s.Notes = append(s.Notes, fmt.Sprint("coverage run failed: ", err))
	}
	s.Done()
}
