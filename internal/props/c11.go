package props

import (
	"bytes"

	"github.com/yuin/goldmark/parser"

	"fmt"
	"strings"
	"sync"

	"verif/internal/core"
)

func init() {
	register(&Check{ID: "C11", QuickS: 200, ThorS: 1800, Run: runC11, Replay: replayC11})
}

type extSpec struct {
	name    string // member name in an "x:" list
	trigger func(tok string) bool
	others  string // all other extensions, as an x: list
}

// c11DocTrigger is the document-level form of the statement's side condition: true when the document contains a
// character (sequence) the extension's syntax needs, i.e. when the property says nothing about it.
func c11DocTrigger(ext string, doc []byte) bool {
	if strings.HasPrefix(ext, "typo.") {
		ext = "typographer"
	}
	switch strings.TrimSuffix(ext, "-opt") {
	case "strike":
		return bytes.IndexByte(doc, '~') >= 0
	case "table":
		return bytes.IndexByte(doc, '-') >= 0
	case "tasklist":
		return bytes.IndexByte(doc, '[') >= 0
	case "footnote":
		return bytes.Contains(doc, []byte("[^"))
	case "deflist":
		return bytes.IndexByte(doc, ':') >= 0
	case "typographer":
		return bytes.ContainsAny(doc, "'\"-.<>")
	case "linkify":
		// the statement names the literal characters: 'www.' in lower case
		return bytes.ContainsAny(doc, ":@") || bytes.Contains(doc, []byte("www."))
	}
	// CJK variants: pure ASCII without backslash-space
	for _, c := range doc {
		if c >= 0x80 {
			return true
		}
	}
	return bytes.Contains(doc, []byte("\\ "))
}

// c11Structured runs the "with == without" comparison on structured documents that short words do not reach: the
// 1-edit neighbourhood of the spec examples and the nesting documents, each filtered by the document-level side condition.
func c11Structured(r *core.Run, ext string, base, with core.Cfg) {
	var bases sync.Map // *core.Conv (with) -> *core.Conv (base), one pair per worker
	var tmps sync.Map
	fn := func(s *core.Sub, x *core.Conv, doc []byte) {
		if c11DocTrigger(ext, doc) {
			return
		}
		bv, ok := bases.Load(x)
		if !ok {
			bv = core.NewConv(base)
			bases.Store(x, bv)
			tmps.Store(x, new([]byte))
		}
		tv, _ := tmps.Load(x)
		c11Case(s, bv.(*core.Conv), x, doc, ext, tv.(*[]byte))
	}
	nbhdSub(r, fmt.Sprintf("nbhd-spec/%s/base=%s", ext, base), with, fn)
	nestSub(r, fmt.Sprintf("nesting/%s/base=%s", ext, base), with, core.Pick(r, 3, 4), fn)
}

func hasAny(chars string) func(string) bool {
	return func(t string) bool { return strings.ContainsAny(t, chars) }
}

var c11Exts = []extSpec{
	{"strike", hasAny("~"), "x:linkify,table,tasklist,deflist,footnote,typographer"},
	{"table", hasAny("-"), "x:linkify,strike,tasklist,deflist,footnote,typographer"},
	{"tasklist", hasAny("["), "x:linkify,table,strike,deflist,footnote,typographer"},
	{"footnote", func(t string) bool { return strings.Contains(t, "[^") }, "x:linkify,table,strike,tasklist,deflist,typographer"},
	{"deflist", hasAny(":"), "x:linkify,table,strike,tasklist,footnote,typographer"},
	{"typographer", hasAny("'\"-.<>"), "x:linkify,table,strike,tasklist,deflist,footnote"},
	{"linkify", func(t string) bool {
		return strings.ContainsAny(t, ":@") || strings.Contains(t, "www.") || t == "w" || t == "."
	}, "x:table,strike,tasklist,deflist,footnote,typographer"},
}

// the same extensions built through their option-bearing constructors with every option set (incl. wrapped html options):
// an extension is an extension however it was constructed
var c11OptExts = []extSpec{
	{"footnote-opt", func(t string) bool { return strings.Contains(t, "[^") }, ""},
	{"table-opt", hasAny("-"), ""},
	{"linkify-opt", func(t string) bool {
		return strings.ContainsAny(t, ":@") || strings.Contains(t, "www.") || t == "w" || t == "."
	}, ""},
	{"typographer-opt", hasAny("'\"-.<>"), ""},
	{"typo.all.nil", hasAny("'\"-.<>"), ""},
	{"typo.all.empty", hasAny("'\"-.<>"), ""},
	{"typo.all.str", hasAny("'\"-.<>"), ""},
}

var c11Alpha = core.Union(core.ABlock, core.AInline, core.AExt, []string{"'", ".", "\t", "^", "{", "}", "go/x", "wwx"})

// c11AlphaFor adds, for Linkify, host names that differ from its trigger only in letter case (the statement names the
// literal lower-case 'www.').
func c11AlphaFor(ext string) []string {
	if strings.HasPrefix(ext, "linkify") {
		return core.Union(c11Alpha, []string{"WWW.a.bc", "Www.A.BC/d"})
	}
	return c11Alpha
}

// c11Pollute builds and uses, once per worker, differently configured instances of the same extensions (option-bearing
// constructors, extension options passed as parser / renderer options next to the package-level extension values): "no
// trigger syntax, no change" must hold for an ordinary instance whatever else lives in the process.
func c11Pollute() {
	for _, c := range c06Customs {
		cv := &core.Conv{MD: c.mk()}
		_, _, _ = cv.Convert([]byte("go/links www.xa.bc \"q\" -- x[^1]\n\n[^1]: n\n\n|a|\n|:-|\n|b|\n"))
	}
}

func c11Case(s *core.Sub, base, with *core.Conv, word []byte, ext string, tmp *[]byte) uint64 {
	o1, ok := mustConvert(s, base, word)
	if !ok {
		return 0
	}
	*tmp = append((*tmp)[:0], o1...)
	o2, ok := mustConvert(s, with, word)
	s.Evals.Add(2)
	if !ok {
		return 0
	}
	if !bytes.Equal(*tmp, o2) {
		s.Violate("ext-not-conservative:"+ext+":"+lastBlockKind(base, word), with.Cfg.String(), word, nil,
			fmt.Sprintf("enabling %s changes the output of a document without its trigger characters (base %s)", ext, base.Cfg), string(*tmp), string(o2))
	}
	if bytes.Count(o2, []byte("<")) >= 2 {
		return core.Hash(o2)
	}
	return 0
}

func runC11(r *core.Run) {
	n := core.Pick(r, 4, 5)
	for _, e := range c11Exts {
		toks := core.Without(c11AlphaFor(e.name), e.trigger)
		for _, baseName := range []string{"core", e.others} {
			base := core.MustCfg(baseName)
			withName := "x:" + e.name
			if baseName != "core" {
				withName = baseName + "," + e.name
			}
			with := core.MustCfg(withName)
			nn := n
			if baseName != "core" && r.Quick() {
				nn = n - 1
			}
			wordsSub(r, fmt.Sprintf("%s/base=%s", e.name, baseName),
				fmt.Sprintf("trigger-free words: R under %s == R under %s; non-trivial = output has ≥2 tags, distinct = output digest", withName, baseName),
				toks, nn, func(s *core.Sub, w int) func([]byte) uint64 {
					b := core.NewConv(base)
					c11Pollute()
					x := core.NewConv(with)
					var tmp []byte
					return func(word []byte) uint64 {
						if c11DocTrigger(e.name, word) {
							return 0 // adjacent tokens spell the trigger (e.g. '[' + '^'): outside the statement
						}
						return c11Case(s, b, x, word, e.name, &tmp)
					}
				})
		}
	}
	for _, e := range c11Exts {
		c11Structured(r, e.name, core.MustCfg("core"), core.MustCfg("x:"+e.name))
	}
	// longer words over the characters each extension's syntax is made of, minus whatever spells the trigger itself
	for _, f := range []struct {
		ext  string
		toks []string
		nq   int
		nt   int
	}{
		{"footnote", []string{"!", "[", "^", "]", "a", "*", ":", " "}, 7, 8},
		{"tasklist", []string{"-", " ", "x", "]", "(", ")", "a", "\n"}, 7, 8},
		{"strike", []string{"-", "*", "a", " ", "_", "\\", "\n", "="}, 7, 8},
		{"deflist", []string{"a", "\n", " ", "-", ";", "~", "    ", ">"}, 7, 8},
	} {
		base, with := core.MustCfg("core"), core.MustCfg("x:"+f.ext)
		wordsSub(r, "focused/"+f.ext, fmt.Sprintf("words of the characters %s's syntax is made of, without its trigger: R under %s == R under core; distinct = output digest", f.ext, with),
			f.toks, core.Pick(r, f.nq, f.nt), func(s *core.Sub, w int) func([]byte) uint64 {
				b, x := core.NewConv(base), core.NewConv(with)
				var tmp []byte
				return func(word []byte) uint64 {
					if c11DocTrigger(f.ext, word) {
						return 0
					}
					return c11Case(s, b, x, word, f.ext, &tmp)
				}
			})
	}
	// one parser.Context (parser.WithContext) shared by a run of conversions: first a document that uses the extension's
	// syntax (and every other extension's), then trigger-free documents of the corpus, with and without the extension
	{
		rich := []byte("x[^1] ~~s~~ www.a.bc \"q\" -- a@b.cd\n\n[^1]: n\n\n|a|b|\n|:-|-:|\n|c|d|\n\n- [ ] t\n\nT\n: d\n")
		docs := c12StructuredDocs(r.Quick())
		for _, e := range c11Exts {
			base, with := core.MustCfg("core"), core.MustCfg("x:"+e.name)
			var keep [][]byte
			for _, d := range docs {
				if !c11DocTrigger(e.name, d) {
					keep = append(keep, d)
				}
			}
			s := r.Sub("shared-context/"+e.name, fmt.Sprintf("on each side (core, core + %s) one instance and one parser.Context passed through parser.WithContext: first a document full of extension syntax, then each of %d trigger-free corpus documents (a new context after every 8): same bytes with and without the extension", e.name, len(keep)))
			s.Planned = int64(len(keep))
			s.Bound = fmt.Sprintf("%d documents", len(keep))
			nchunk := (len(keep) + 7) / 8
			core.ForEachIndex(nchunk, core.Workers(), func(w int) func(int) {
				mb, mw := base.New(), with.New()
				var bb, bw bytes.Buffer
				return func(ci int) {
					pb, pw := parser.NewContext(), parser.NewContext()
					hist := []string{"ctx := parser.NewContext()", "Convert(" + core.Q(rich) + ", WithContext(ctx))"}
					conv := func(d []byte) (ok bool) {
						bb.Reset()
						bw.Reset()
						var pan any
						var e1, e2 error
						func() {
							defer func() { pan = recover() }()
							e1 = mb.Convert(d, &bb, parser.WithContext(pb))
							e2 = mw.Convert(d, &bw, parser.WithContext(pw))
						}()
						if pan != nil || e1 != nil || e2 != nil {
							s.Violate("convert-failed:shared-context", with.String(), d, hist, fmt.Sprint("panic=", pan, " err=", e1, e2), "", "")
							mb, mw = base.New(), with.New()
							return false
						}
						return true
					}
					if !conv(rich) {
						return
					}
					for k := ci * 8; k < ci*8+8 && k < len(keep); k++ {
						d := keep[k]
						hist = append(hist, "Convert("+core.Q(d)+", WithContext(ctx))")
						if !conv(d) {
							return
						}
						s.Evals.Add(2)
						if !bytes.Equal(bb.Bytes(), bw.Bytes()) {
							s.Violate("ext-not-conservative:"+e.name+":shared-context", with.String(), d, hist, "with one parser.Context per side, enabling "+e.name+" changes the output of a document without its trigger characters", bb.String(), bw.String())
							return
						}
						s.Distinct(core.Hash(d))
					}
					if ci%(nchunk/4+1) == 0 && ci*8 < len(keep) {
						s.AddSample(core.Q(keep[ci*8]))
					}
				}
			}, r.Expired)
			s.States.Store(int64(len(keep)))
			s.Transitions.Store(s.Evals.Load())
			s.Done()
		}
	}
	for _, e := range c11OptExts {
		toks := core.Without(c11AlphaFor(e.name), e.trigger)
		for _, bn := range []string{"core", "core+unsafe+xhtml"} {
			base, with := core.MustCfg(bn), core.MustCfg("x:"+e.name+strings.TrimPrefix(bn, "core"))
			wordsSub(r, fmt.Sprintf("%s/base=%s", e.name, bn),
				fmt.Sprintf("trigger-free words: R under %s (the extension through its option-bearing constructor with every option set, wrapped html options included) == R under %s; distinct = output digest", with, bn),
				toks, n, func(s *core.Sub, w int) func([]byte) uint64 {
					b, x := core.NewConv(base), core.NewConv(with)
					var tmp []byte
					return func(word []byte) uint64 {
						if c11DocTrigger(e.name, word) {
							return 0
						}
						return c11Case(s, b, x, word, e.name, &tmp)
					}
				})
		}
		c11Structured(r, e.name, core.MustCfg("core"), core.MustCfg("x:"+e.name))
	}
	// the same under the other renderer switches (hard wraps, XHTML, unsafe): conservative whatever the renderer options
	for _, e := range c11Exts {
		c11Structured(r, e.name, core.MustCfg("core+unsafe+xhtml+hardwraps"), core.MustCfg("x:"+e.name+"+unsafe+xhtml+hardwraps"))
	}
	for _, cj := range []string{"cjk-simple", "cjk-css3", "cjk"} {
		c11Structured(r, cj, core.MustCfg("core+hardwraps"), core.MustCfg("x:"+cj+"+hardwraps"))
	}
	for _, cj := range []string{"cjk-simple", "cjk-css3", "cjk-esc", "cjk"} {
		c11Structured(r, cj, core.MustCfg("core"), core.MustCfg("x:"+cj))
		if cj == "cjk-simple" || cj == "cjk-css3" {
			others := "x:linkify,table,strike,tasklist,deflist,footnote,typographer"
			c11Structured(r, cj, core.MustCfg(others), core.MustCfg(others+","+cj))
		}
	}
	// CJK: pure ASCII without backslash-space
	asciiToks := core.Without(c11Alpha, func(t string) bool {
		for i := 0; i < len(t); i++ {
			if t[i] >= 0x80 {
				return true
			}
		}
		return false
	})
	for _, cj := range []string{"cjk-simple", "cjk-css3", "cjk-esc", "cjk"} {
		for _, baseName := range []string{"core", "x:linkify,table,strike,tasklist,deflist,footnote,typographer"} {
			base := core.MustCfg(baseName)
			withName := "x:" + cj
			if baseName != "core" {
				withName = baseName + "," + cj
			}
			with := core.MustCfg(withName)
			nn := n
			if (baseName != "core" || cj == "cjk-css3") && r.Quick() {
				nn = n - 1
			}
			wordsSub(r, fmt.Sprintf("%s/base=%s", cj, baseName),
				fmt.Sprintf("pure-ASCII words without the pair backslash-space: R under %s == R under %s; distinct = output digest", withName, baseName),
				asciiToks, nn, func(s *core.Sub, w int) func([]byte) uint64 {
					b, x := core.NewConv(base), core.NewConv(with)
					var tmp []byte
					return func(word []byte) uint64 {
						if bytes.Contains(word, []byte("\\ ")) {
							return 0
						}
						return c11Case(s, b, x, word, cj, &tmp)
					}
				})
		}
	}
	// GFM == its four members in every registration order
	members := []string{"linkify", "table", "strike", "tasklist"}
	var orders []string
	var perm func(cur []string, rest []string)
	perm = func(cur, rest []string) {
		if len(rest) == 0 {
			orders = append(orders, "x:"+strings.Join(cur, ","))
			return
		}
		for i := range rest {
			nr := append(append([]string{}, rest[:i]...), rest[i+1:]...)
			perm(append(append([]string{}, cur...), rest[i]), nr)
		}
	}
	perm(nil, members)
	gn := core.Pick(r, 3, 4)
	galpha := core.Union(core.AExt, core.ABlock, []string{"[", "]", "(", ")", "x", "<", "*", "_", "\\"})
	wordsSub(r, "gfm-vs-members", fmt.Sprintf("R under extension.GFM == R under its four members registered in each of the %d orders; distinct = output digest", len(orders)),
		galpha, gn, func(s *core.Sub, w int) func([]byte) uint64 {
			g := core.NewConv(core.MustCfg("gfm"))
			var cvs []*core.Conv
			for _, o := range orders {
				cvs = append(cvs, core.NewConv(core.MustCfg(o)))
			}
			var tmp []byte
			return func(word []byte) uint64 {
				var h uint64
				for _, cv := range cvs {
					h = c11Case(s, g, cv, word, "gfm-members", &tmp)
				}
				return h
			}
		})
	// the same comparison on structured documents: every seed as it is, the 1-edit neighbourhood of the short ones, the
	// nesting documents, and small tables with every cell content of the table check in every cell
	{
		tdocs := TableDocs()
		for _, e := range Seeds(r) {
			tdocs = append(tdocs, []byte(e.Markdown))
		}
		members2 := []string{orders[0], orders[len(orders)-1], orders[len(orders)/2]}
		var pairs sync.Map
		get := func(g *core.Conv) []*core.Conv {
			if v, ok := pairs.Load(g); ok {
				return v.([]*core.Conv)
			}
			var cvs []*core.Conv
			for _, o := range members2 {
				cvs = append(cvs, core.NewConv(core.MustCfg(o)))
			}
			pairs.Store(g, cvs)
			return cvs
		}
		fn := func(s *core.Sub, g *core.Conv, doc []byte) {
			var tmp []byte
			for _, cv := range get(g) {
				c11Case(s, g, cv, doc, "gfm-members", &tmp)
			}
		}
		s := r.Sub("gfm-vs-members/documents", fmt.Sprintf("%d documents (two-column tables with every pair of cell contents from %q, every alignment and placement; every spec example and every source of the repository's test-case files): R under extension.GFM == R under its four members in the orders %q", len(tdocs), c17Contents, members2))
		core.ForEachIndex(len(tdocs), core.Workers(), func(w int) func(int) {
			g := core.NewConv(core.MustCfg("gfm"))
			return func(i int) {
				fn(s, g, tdocs[i])
				s.Distinct(core.Hash(tdocs[i]))
				if i%(len(tdocs)/6+1) == 0 {
					s.AddSample(core.Q(tdocs[i]))
				}
			}
		}, r.Expired)
		s.Bound = fmt.Sprintf("%d documents × %d orders", len(tdocs), len(members2))
		s.States.Store(int64(len(tdocs)))
		s.Transitions.Store(s.Evals.Load())
		s.Done()
		nbhdSub(r, "gfm-vs-members/nbhd", core.MustCfg("gfm"), fn)
		nestSub(r, "gfm-vs-members/nesting", core.MustCfg("gfm"), core.Pick(r, 3, 4), fn)
	}
}

func replayC11(r *core.Run, v *core.Violation) {
	with, err := core.ParseCfg(v.Cfg)
	if err != nil {
		fmt.Println(err)
		return
	}
	// the base configuration is the one named in the sub-check: "<ext>/base=<cfg>"
	baseName := "core"
	if i := strings.Index(v.Sub, "base="); i >= 0 {
		baseName = v.Sub[i+5:]
	} else if v.Sub == "gfm-vs-members" {
		baseName = "gfm"
	}
	base, err := core.ParseCfg(baseName)
	if err != nil {
		fmt.Println(err)
		return
	}
	s := r.Sub(v.Sub, "replay of one input")
	var tmp []byte
	c11Case(s, core.NewConv(base), core.NewConv(with), v.Input(), "replay", &tmp)
	s.Done()
}
