package props

import (
	"bytes"
	"fmt"
	"strings"

	"github.com/yuin/goldmark/ast"

	"verif/internal/core"
)

func init() {
	register(&Check{ID: "C09", QuickS: 200, ThorS: 1800, Run: runC09, Replay: replayC09})
}

// endsInOpenRawBlock is the (conservative) side condition: the deepest last block of the tree is a fenced or
// indented code block or an HTML block. It only removes cases.
func endsInOpenRawBlock(doc ast.Node) bool {
	n := doc
	for {
		l := n.LastChild()
		if l == nil || l.Type() != ast.TypeBlock {
			break
		}
		n = l
	}
	switch n.Kind() {
	case ast.KindFencedCodeBlock, ast.KindCodeBlock, ast.KindHTMLBlock:
		return true
	}
	return false
}

var c09BlockTags = map[string]bool{}

func init() {
	for _, t := range strings.Fields("address article aside base basefont blockquote body caption center col colgroup dd details dialog dir div dl dt fieldset figcaption figure footer form frame frameset h1 h2 h3 h4 h5 h6 head header hr html iframe legend li link main menu menuitem nav noframes ol optgroup option p param search section summary table tbody td tfoot th thead title tr track ul") {
		c09BlockTags[t] = true
	}
}

// c09TopLevelClosed is an independent reading of the side condition for documents made of top-level blocks only. It
// returns simple=true when no line of a is indented by 4+ columns, contains a tab, or starts (after ≤3 spaces) with a
// container or fence character (> - + * digit ` ~), and when every HTML block start it meets is of a kind it can classify
// from CommonMark's start conditions 1–6; closed then says whether, by the specification's end conditions, no HTML block
// is still open at the end of a (types 1–5: a line containing the end marker was seen; type 6: a blank line followed).
// Deciding this from the implementation's own tree alone would hide exactly the defects where a block fails to close.
func c09TopLevelClosed(a []byte) (simple, closed bool) {
	t := 0 // open HTML block type
	ends := map[int][]string{1: {"</pre>", "</script>", "</style>", "</textarea>"}, 2: {"-->"}, 3: {"?>"}, 4: {">"}, 5: {"]]>"}}
	hasEnd := func(low string, ty int) bool {
		for _, e := range ends[ty] {
			if strings.Contains(low, e) {
				return true
			}
		}
		return false
	}
	for _, ln := range strings.Split(strings.TrimRight(string(a), "\n"), "\n") {
		if strings.ContainsAny(ln, "\t\r") {
			return false, false
		}
		low := strings.ToLower(ln)
		if t >= 1 && t <= 5 {
			if hasEnd(low, t) {
				t = 0
			}
			continue
		}
		blank := strings.TrimSpace(ln) == ""
		if t == 6 {
			if blank {
				t = 0
			}
			continue
		}
		if blank {
			continue
		}
		body := strings.TrimLeft(ln, " ")
		if len(ln)-len(body) > 3 {
			return false, false
		}
		if strings.IndexByte(">-+*0123456789`~", body[0]) >= 0 {
			return false, false
		}
		lb := strings.ToLower(body)
		if lb[0] != '<' {
			continue
		}
		ty := 0
		switch {
		case strings.HasPrefix(lb, "<!--"):
			ty = 2
		case strings.HasPrefix(lb, "<?"):
			ty = 3
		case strings.HasPrefix(lb, "<![cdata["):
			ty = 5
		case len(lb) > 2 && lb[1] == '!' && lb[2] >= 'a' && lb[2] <= 'z':
			ty = 4
		default:
			name := strings.TrimPrefix(lb[1:], "/")
			i := 0
			for i < len(name) && (name[i] >= 'a' && name[i] <= 'z' || name[i] >= '0' && name[i] <= '9') {
				i++
			}
			rest := name[i:]
			name = name[:i]
			delim := rest == "" || rest[0] == ' ' || rest[0] == '>' || strings.HasPrefix(rest, "/>")
			switch {
			case (name == "pre" || name == "script" || name == "style" || name == "textarea") && lb[1] != '/' && (rest == "" || rest[0] == ' ' || rest[0] == '>'):
				ty = 1
			case c09BlockTags[name] && delim:
				ty = 6
			default:
				return false, false // a type 7 block, or inline HTML in a paragraph: not classified here
			}
		}
		if ty >= 1 && ty <= 5 && hasEnd(low, ty) {
			return false, false // opener and end marker on one line: left to the conservative rule
		}
		t = ty
	}
	return true, t == 0
}

// c09Open is the side condition used for A: conservative rule on the implementation's tree, overridden by the independent
// top-level reading where that applies.
func c09Open(a []byte, doc ast.Node) bool {
	if simple, closed := c09TopLevelClosed(a); simple {
		return !closed
	}
	return endsInOpenRawBlock(doc)
}

// withNL returns a terminated by a line ending: A is a sequence of complete lines (the joined document puts a line ending
// behind A's last line, so R(A) is taken with it too; it matters for raw blocks, whose bytes are copied verbatim).
func withNL(a []byte, buf *[]byte) []byte {
	if len(a) > 0 && a[len(a)-1] == '\n' {
		return a
	}
	*buf = append(append((*buf)[:0], a...), '\n')
	return *buf
}

var c09Sep = []byte("\n\n# h\n\n")
var c09Mid = []byte("<h1>h</h1>\n")

type c09B struct {
	src []byte
	out map[string][]byte
}

func c09PairCase(s *core.Sub, cv *core.Conv, a, ra, b, rb []byte, scratch *[]byte) {
	// A and B are sequences of complete lines: A, a blank line, the heading line, a blank line, B
	doc := append((*scratch)[:0], a...)
	if len(a) == 0 || a[len(a)-1] != '\n' {
		doc = append(doc, '\n')
	}
	doc = append(append(doc, c09Sep[1:]...), b...)
	if len(b) == 0 || b[len(b)-1] != '\n' {
		doc = append(doc, '\n')
	}
	*scratch = doc
	got, ok := mustConvert(s, cv, doc)
	if !ok {
		return
	}
	n := len(ra) + len(c09Mid) + len(rb)
	if len(got) == n && bytes.Equal(got[:len(ra)], ra) && bytes.Equal(got[len(ra):len(ra)+len(c09Mid)], c09Mid) && bytes.Equal(got[len(ra)+len(c09Mid):], rb) {
		return
	}
	which := "A-changed"
	if bytes.HasPrefix(got, append(append([]byte{}, ra...), c09Mid...)) {
		which = "B-changed"
	}
	s.Violate("closed-block-dependence:"+which+":"+lastBlockKind(cv, a), cv.Cfg.String(), doc, nil,
		fmt.Sprintf("A=%s B=%s: rendering of A, heading, B is not the concatenation of the parts", core.Q(a), core.Q(b)),
		string(ra)+string(c09Mid)+string(rb), string(got))
}

// c09NoReferenceSyntax: the document has no link reference syntax: no definition ("]:") and every closing bracket is
// directly followed by '(' (inline links and images only).
func c09NoReferenceSyntax(md string) bool {
	if strings.Contains(md, "]:") {
		return false
	}
	for i := 0; i < len(md); i++ {
		if md[i] == ']' && (i+1 >= len(md) || md[i+1] != '(') {
			return false
		}
	}
	return true
}

func runC09(r *core.Run) {
	type job struct {
		name   string
		toks   []string
		nq, nt int
		mq, mt int
		cfgs   []string
	}
	jobs := []job{
		{"block", core.Union(core.ABlock, []string{"<a>"}), 4, 5, 2, 2, []string{"core+unsafe"}},
		{"block", core.Union(core.ABlock, []string{"<a>"}), 4, 5, 1, 2, []string{"gfm"}},
		{"html", core.AHTML, 3, 4, 2, 2, []string{"core+unsafe"}},
		// the statement is about core CommonMark and GFM only (Typographer's document-wide quote counter, for one,
		// makes blocks depend on each other by design of that extension), so no "all" configuration here
		{"ext", core.Without(core.AExt, func(t string) bool { return bytes.IndexByte([]byte(t), '[') >= 0 }), 4, 5, 1, 2, []string{"gfm"}},
	}
	for _, j := range jobs {
		n, m := core.Pick(r, j.nq, j.nt), core.Pick(r, j.mq, j.mt)
		for _, cn := range j.cfgs {
			cfg := core.MustCfg(cn)
			// all B with their renderings
			var bs [][2][]byte
			{
				cv := core.NewConv(cfg)
				core.ForEachWord(j.toks, m, 1, func(int) func([]byte) {
					var nlb []byte
					return func(w []byte) {
						out, _, _ := cv.Convert(withNL(w, &nlb))
						bs = append(bs, [2][]byte{append([]byte{}, w...), append([]byte{}, out...)})
					}
				}, nil)
			}
			sub := wordsSub(r, fmt.Sprintf("pairs-%s/%s", j.name, cn),
				fmt.Sprintf("A = the word (skipped when its deepest last block is fenced/indented code or an HTML block), B = every word of ≤%d tokens (%d of them): R(A ⏎⏎ '# h' ⏎⏎ B) == R(A) + '<h1>h</h1>' + R(B) under %s; distinct = digest of R(A)", m, len(bs), cn),
				j.toks, n, func(s *core.Sub, w int) func([]byte) uint64 {
					cv := core.NewConv(cfg)
					var scratch, ra []byte
					return func(a []byte) uint64 {
						doc, pan := cv.Parse(a)
						if pan != nil || doc == nil || c09Open(a, doc) {
							return 0
						}
						var nlb []byte
						out, ok := mustConvert(s, cv, withNL(a, &nlb))
						if !ok {
							return 0
						}
						ra = append(ra[:0], out...)
						for _, b := range bs {
							c09PairCase(s, cv, a, ra, b[0], b[1], &scratch)
						}
						s.Evals.Add(int64(len(bs)))
						return core.Hash(ra)
					}
				})
			sub.Extra["B_words"] = len(bs)
		}
	}
	// (1b) raw-token documents against complete constructs, both ways round: something left open in one block (a stray
	// backtick, bracket, delimiter, quote, fence-like run) must not change a well-formed construct in another block
	constructs := []string{"`a`", "``a`b``", "*a*", "**a**", "_a_", "[a](b)", "[a](b \"c\")", "![a](b)", "<http://a.bc>", "<b>x</b>", "&amp;", "\\*a\\*", "a  \nb", "a\\\nb",
		"- a\n- b", "1. a\n2. b", "> a", "```\na\n```", "~~~\na\n~~~", "    a", "a\n===", "a\n---", "***", "# a #", "- a\n\n  b", "> - a\n> - b", "<div>\na\n</div>", "a `b` *c* [d](e)"}
	gfmConstructs := append(append([]string{}, constructs...), "~~a~~", "|a|b|\n|-|-|\n|c|d|", "- [ ] a\n- [x] b", "www.a.bc", "http://a.bc/d", "a@b.cd")
	rawToks := core.Union(core.ABlock, []string{"[", "]", "(", "_", "<", "\\", "\"", "'", "&", "|", ":"})
	for _, cn := range []string{"core+unsafe", "gfm"} {
		cfg := core.MustCfg(cn)
		cons := constructs
		if cn == "gfm" {
			cons = gfmConstructs
		}
		var bs [][2][]byte
		{
			cv := core.NewConv(cfg)
			for _, c := range cons {
				out, _, _ := cv.Convert([]byte(c + "\n"))
				bs = append(bs, [2][]byte{[]byte(c), append([]byte{}, out...)})
			}
		}
		n := core.Pick(r, 3, 4)
		sub := wordsSub(r, "raw-vs-constructs/"+cn,
			fmt.Sprintf("W = the word over raw tokens, K = each of %d complete constructs %q: R(W ⏎⏎ '# h' ⏎⏎ K) == R(W) + heading + R(K) (W skipped when it ends in an open code/HTML block) and R(K ⏎⏎ '# h' ⏎⏎ W) == R(K) + heading + R(W) (K skipped likewise), under %s", len(cons), cons, cn),
			rawToks, n, func(s *core.Sub, w int) func([]byte) uint64 {
				cv := core.NewConv(cfg)
				var scratch, rw []byte
				openK := make([]int8, len(bs))
				return func(wd []byte) uint64 {
					if bytes.IndexByte(wd, '[') >= 0 && bytes.IndexByte(wd, ']') >= 0 && bytes.IndexByte(wd, ':') >= 0 {
						return 0 // could be a reference definition: the statement excludes link reference syntax in the raw part
					}
					doc, pan := cv.Parse(wd)
					if pan != nil || doc == nil {
						return 0
					}
					wOpen := c09Open(wd, doc)
					var nlb []byte
					out, ok := mustConvert(s, cv, withNL(wd, &nlb))
					if !ok {
						return 0
					}
					rw = append(rw[:0], out...)
					for i, b := range bs {
						if !wOpen {
							c09PairCase(s, cv, wd, rw, b[0], b[1], &scratch)
							s.Evals.Add(1)
						}
						if openK[i] == 0 {
							openK[i] = 1
							if d, _ := cv.Parse(b[0]); d != nil && c09Open(b[0], d) {
								openK[i] = 2
							}
						}
						if openK[i] == 1 {
							c09PairCase(s, cv, b[0], b[1], wd, rw, &scratch)
							s.Evals.Add(1)
						}
					}
					return core.Hash(rw)
				}
			})
		sub.Extra["constructs"] = len(cons)
	}
	// (1d) every ordered pair of seeds: the spec examples, the sources of the repository's own test-case files and a list
	// of edge constructs (empty and marker-only list items, empty quotes, things left open), without link reference syntax
	{
		edge := []string{"-\n  foo", "-\n\n  foo", "- a\n-\n", "*", "-", "1.", "1.\n   a", "- a\n-", "-\n- a", "- \n  a", "> ", ">", ">\n> a", "- >", "-   a",
			"- a\n\n\n", "+\n\n", "- - a", "- # a", "    a\n\n    b", "a\\", "a  ", "\\", "`", "``a", "*a", "_a", "<div>", "<!--", "<?a", "<!A", "<![CDATA[", "</x", "a\n>", "a\n-", "a\n=", "~~~", "```", "- ```", "> ```", "-\n\n-\n\n  a", "1.\n2.\n   a", "-\n  -\n    a", ">\n\n> a", "- a\n\n-", "*\n*\n*",
			// tabs: a line's columns are counted from its own start, whatever came before it
			"\ta", "  \ta", " \t a", "\t\ta", "-\ta", ">\ta", "- a\n\n\tb", "1.\ta\n\n\t\tb", "a\tb", "```\ncode\n```", "~~~\na\n~~~", "> ```\n> c\n> ```", "a\n\tb", "#\ta"}
		// East Asian text with line breaks (the CJK line-break options look at the characters around a break) and inline
		// links / images whose text ends in a line break
		edge = append(edge, "東京の\n会社", "漢字。\n[会社\n](/u)", "東京の\n[会社\n](/u)", "a\n[b\n](/u)", "![東京\n](/u)", "*東京\n*", "> 東京\n> [京\n> ](/u)", "- 京\n  [都\n  ](/u)", "東京\n", "京", "。a", "a。\n*b\n*", "東京の\n[会社。\n](/u)", "[a。\n](/u)", "![b。\n](/u)", "> [京。\n> ](/u)", "*a。\n*", "a。\n")
		var cjkDocs []string
		for i, u := range UnicodeDocs() {
			if i%4 == 0 || !r.Quick() { // quick: every fourth of the Unicode documents
				cjkDocs = append(cjkDocs, string(u))
			}
		}
		for _, cn := range []string{"core+unsafe", "gfm", "x:cjk-simple", "x:cjk-css3"} {
			cfg := core.MustCfg(cn)
			// under the East Asian line-break options the heading starts with a wide character (what stands at the head of
			// the next block must not reach back into a closed block)
			saveSep, saveMid := c09Sep, c09Mid
			if strings.HasPrefix(cn, "x:cjk") {
				c09Sep, c09Mid = []byte("\n\n# 世h\n\n"), []byte("<h1>世h</h1>\n")
			}
			type item struct {
				src, out []byte
				open     bool
			}
			var items []item
			{
				cv := core.NewConv(cfg)
				add := func(md string) {
					if !c09NoReferenceSyntax(md) || strings.ContainsAny(md, "\r") || strings.TrimSpace(md) == "" || len(md) > core.Pick(r, 200, 4000) {
						return
					}
					src := []byte(strings.TrimRight(md, "\n"))
					doc, pan := cv.Parse(src)
					var nlb []byte
					out, err, pan2 := cv.Convert(withNL(src, &nlb))
					if pan != nil || pan2 != nil || err != nil || doc == nil {
						return
					}
					items = append(items, item{src, append([]byte{}, out...), c09Open(src, doc)})
				}
				if strings.HasPrefix(cn, "x:cjk") {
					// the East Asian line-break configurations: the edge constructs and the Unicode documents
					for _, e := range cjkDocs {
						add(e)
					}
				} else {
					for _, e := range Seeds(r) {
						add(e.Markdown)
						if strings.Contains(e.Markdown, "<") { // tag names and HTML block conditions are case-insensitive
							if up := strings.ToUpper(e.Markdown); up != e.Markdown {
								add(up)
							}
						}
					}
				}
				for _, e := range edge {
					add(e)
				}
			}
			sub := r.Sub("seed-pairs/"+cn, fmt.Sprintf("every ordered pair (A, B) of %d seeds (spec examples, sources of the repository's test-case files, %d edge constructs such as empty and marker-only list items, and the upper-cased form of every seed containing '<'; seeds with a carriage return or with a bracket that is not part of an inline link / image (every ']' directly followed by '(', no ']:') are left out, A skipped when it ends in an open code/HTML block): R(A ⏎⏎ '# h' ⏎⏎ B) == R(A) + heading + R(B) under %s", len(items), len(edge), cn))
			sub.Bound = fmt.Sprintf("%d × %d pairs", len(items), len(items))
			complete := core.ForEachIndex(len(items), core.Workers(), func(w int) func(int) {
				cv := core.NewConv(cfg)
				var scratch []byte
				return func(i int) {
					if items[i].open {
						return
					}
					for j := range items {
						c09PairCase(sub, cv, items[i].src, items[i].out, items[j].src, items[j].out, &scratch)
					}
					sub.Evals.Add(int64(len(items)))
					sub.Distinct(core.Hash(items[i].out))
					if i%(len(items)/6+1) == 0 {
						sub.AddSample("A = " + core.Q(items[i].src))
					}
				}
			}, r.Expired)
			if !complete {
				sub.Incomplete("internal deadline reached")
			}
			sub.States.Store(int64(len(items)))
			sub.Transitions.Store(sub.Evals.Load())
			sub.Done()
			c09Sep, c09Mid = saveSep, saveMid
		}
	}
	// (1c) long closed prefixes: A = (unit sep)^n for EVERY n up to a bound, B = constructs whose rendering depends on
	// blank-line bookkeeping (loose/tight lists) and others; thresholds inside the block parser are crossed at every phase
	{
		bsrc := []string{"- a\n\n- b", "- a\n- b", "1. a\n\n2. b", "- a\n\n  b\n- c", "> a\n\n> b", "a\n\nb", "- a\n  - b\n\n  - c\n- d", "`a` *b*", "- a\n\n\n- b", "* a\n\n  b\n\n* c"}
		for _, cn := range []string{"core+unsafe", "gfm"} {
			cfg := core.MustCfg(cn)
			var bs [][2][]byte
			{
				cv := core.NewConv(cfg)
				for _, c := range bsrc {
					out, _, _ := cv.Convert([]byte(c + "\n"))
					bs = append(bs, [2][]byte{[]byte(c), append([]byte{}, out...)})
				}
			}
			sub := r.Sub("replication/"+cn, "placeholder")
			sub.Rule = fmt.Sprintf("A = (unit sep)^n for unit in %q, sep in {LF, LF LF}, every n = 1..%d (skipped when A ends in an open code/HTML block), B = each of %q: R(A ⏎⏎ '# h' ⏎⏎ B) == R(A) + heading + R(B) and R(B ⏎⏎ '# h' ⏎⏎ A) == R(B) + heading + R(A), under %s", replUnits, core.Pick(r, 150, 300), bsrc, cn)
			maxN := core.Pick(r, 150, 300)
			type job struct{ u, sep string }
			var jobs []job
			for _, u := range replUnits {
				for _, sep := range []string{"\n", "\n\n"} {
					jobs = append(jobs, job{u, sep})
				}
			}
			complete := core.ForEachIndex(len(jobs), core.Workers(), func(w int) func(int) {
				cv := core.NewConv(cfg)
				var scratch, ra []byte
				return func(i int) {
					var a []byte
					for n := 1; n <= maxN; n++ {
						a = append(append(a, jobs[i].u...), jobs[i].sep...)
						at := bytes.TrimRight(a, "\n")
						doc, pan := cv.Parse(at)
						if pan != nil || doc == nil || endsInOpenRawBlock(doc) {
							continue
						}
						var nlb []byte
						out, ok := mustConvert(sub, cv, withNL(at, &nlb))
						if !ok {
							continue
						}
						ra = append(ra[:0], out...)
						for _, b := range bs {
							c09PairCase(sub, cv, at, ra, b[0], b[1], &scratch)
							c09PairCase(sub, cv, b[0], b[1], at, ra, &scratch)
							sub.Evals.Add(2)
						}
					}
					sub.Distinct(core.Hash(a))
				}
			}, r.Expired)
			if !complete {
				sub.Incomplete("internal deadline reached")
			}
			sub.Bound = fmt.Sprintf("%d units × 2 separators × n=1..%d × %d B × 2 orders", len(replUnits), maxN, len(bs))
			sub.States.Store(sub.Evals.Load())
			sub.Transitions.Store(sub.Evals.Load())
			sub.AddSample("A = (\"a\" LF LF)^123, B = \"- a\\n\\n- b\"")
			sub.Done()
		}
	}
	// (2) reference definitions are position independent
	dtoks := []string{"a", " ", "\n", "[foo]", "[FOO][]", "[x][ foo ]", "![Foo]", "*", "> ", "- ", "#", "[b][Bar]", "`"}
	defsets := []string{
		"[foo]: /u",
		"[foo]: /u \"t\"",
		"[foo]: /u\n[bar]: <v> 't'",
		"[FOO]: /u\n[foo]: /w\n[ bar ]: /x",
	}
	nd := core.Pick(r, 4, 5)
	for _, cn := range []string{"core", "gfm"} {
		cfg := core.MustCfg(cn)
		wordsSub(r, "defs-position/"+cn,
			fmt.Sprintf("D = the word (skipped when it ends in a code/HTML block); for each of %d definition sets: R(defs ⏎⏎ D) == R(D ⏎⏎ defs) under %s; non-trivial = some label resolved (output has href/src), distinct = digest of output", len(defsets), cn),
			dtoks, nd, func(s *core.Sub, w int) func([]byte) uint64 {
				cv := core.NewConv(cfg)
				var d1, d2, o1 []byte
				return func(d []byte) uint64 {
					if blank(d) {
						return 0
					}
					doc, pan := cv.Parse(d)
					if pan != nil || doc == nil || endsInOpenRawBlock(doc) {
						return 0
					}
					var h uint64
					for _, defs := range defsets {
						d1 = append(append(append(d1[:0], defs...), "\n\n"...), d...)
						d2 = append(append(append(d2[:0], d...), "\n\n"...), defs...)
						out, ok := mustConvert(s, cv, d1)
						if !ok {
							continue
						}
						o1 = append(o1[:0], out...)
						out2, ok := mustConvert(s, cv, d2)
						s.Evals.Add(2)
						if ok && !bytes.Equal(o1, out2) {
							s.Violate("defs-position-dependent:"+lastBlockKind(cv, d), cfg.String(), d2, nil,
								fmt.Sprintf("D=%s defs=%s: moving the definitions from the top to the end changes the output", core.Q(d), core.Q([]byte(defs))), string(o1), string(out2))
						}
						if bytes.Contains(o1, []byte("href=")) || bytes.Contains(o1, []byte("src=")) {
							h = core.Hash(o1)
						}
					}
					return h
				}
			})
	}
}

func replayC09(r *core.Run, v *core.Violation) {
	cfg, err := core.ParseCfg(v.Cfg)
	if err != nil {
		fmt.Println(err)
		return
	}
	s := r.Sub(v.Sub, "replay of one input (the stored input is the combined document; it is re-split at the separator)")
	cv := core.NewConv(cfg)
	in := v.Input()
	if i := bytes.Index(in, c09Sep); i >= 0 {
		a, b := in[:i], in[i+len(c09Sep):]
		ra0, _, _ := cv.Convert(a)
		ra := append([]byte{}, ra0...)
		rb0, _, _ := cv.Convert(b)
		rb := append([]byte{}, rb0...)
		var scratch []byte
		c09PairCase(s, cv, a, ra, b, rb, &scratch)
		s.Evals.Add(1)
	} else {
		fmt.Println("definition-position replays: re-run the quick check (inputs are regenerated deterministically)")
	}
	s.Done()
}
