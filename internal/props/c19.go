package props

import (
	"bytes"
	"fmt"
	"sort"
	"strings"
	"unicode"
	"unicode/utf8"

	"github.com/yuin/goldmark/util"

	"verif/internal/core"
)

func init() {
	register(&Check{ID: "C19", QuickS: 240, ThorS: 2400, Run: runC19, Replay: replayC19})
}

var c19Alphabet = []string{"a", "A", " ", "\t", "\n", "&", "#", "x", ";", "1", "%", "4", "g", "<", ">", "\"", "\\", "\x00", "\x80", "é", "あ", "ß", "ẞ", "Σ", "ς", "İ", "amp", "#xD800;", "#x110000;", "\xc3", "\x7f", "'", "K"}

func c19Call(f func() []byte) (out []byte, pan any) {
	defer func() {
		if p := recover(); p != nil {
			pan = p
			out = nil
		}
	}()
	return f(), nil
}

func isHex(c byte) bool { return c >= '0' && c <= '9' || c >= 'a' && c <= 'f' || c >= 'A' && c <= 'F' }

// htmlDecode4 decodes exactly the four references EscapeHTML may produce; ok=false if a '&' starts anything else.
func htmlDecode4(b []byte) (out []byte, ok bool) {
	for i := 0; i < len(b); {
		if b[i] != '&' {
			out = append(out, b[i])
			i++
			continue
		}
		switch {
		case bytes.HasPrefix(b[i:], []byte("&amp;")):
			out, i = append(out, '&'), i+5
		case bytes.HasPrefix(b[i:], []byte("&lt;")):
			out, i = append(out, '<'), i+4
		case bytes.HasPrefix(b[i:], []byte("&gt;")):
			out, i = append(out, '>'), i+4
		case bytes.HasPrefix(b[i:], []byte("&quot;")):
			out, i = append(out, '"'), i+6
		default:
			return nil, false
		}
	}
	return out, true
}

// splitTriples splits x at its %XX triples (leftmost, non-overlapping): pieces[0] T[0] pieces[1] ... pieces[n].
func splitTriples(x []byte) (pieces [][]byte, triples [][]byte) {
	start := 0
	for i := 0; i < len(x); {
		if x[i] == '%' && i+2 < len(x)+0 && i+2 <= len(x)-1 && isHex(x[i+1]) && isHex(x[i+2]) {
			pieces = append(pieces, x[start:i])
			triples = append(triples, x[i:i+3])
			i += 3
			start = i
			continue
		}
		i++
	}
	pieces = append(pieces, x[start:])
	return
}

// c19Laws evaluates every law of the statement on one byte string; report(sig, detail, want, got).
func c19Laws(x []byte, report func(sig, detail, want, got string)) (digest uint64) {
	orig := append([]byte{}, x...)
	valid := utf8.Valid(x)
	q := func(b []byte) string { return core.Q(b) }

	// --- EscapeHTML
	eh, pan := c19Call(func() []byte { return util.EscapeHTML(x) })
	if pan != nil {
		report("panic:EscapeHTML", fmt.Sprint(pan), "", "")
	} else {
		if bytes.ContainsAny(eh, "<>\"") {
			report("EscapeHTML:raw-special", "output contains a raw < > or \"", "", q(eh))
		}
		if dec, ok := htmlDecode4(eh); !ok {
			report("EscapeHTML:bare-ampersand", "an & in the output does not start &amp; &lt; &gt; or &quot;", "", q(eh))
		} else if !bytes.Equal(dec, x) {
			report("EscapeHTML:does-not-decode-back", "decoding the output does not give the input", q(x), q(dec))
		}
		digest = core.HashMix(digest, core.Hash(eh))
	}

	// --- URLEscape, both modes
	for _, resolve := range []bool{false, true} {
		name := "URLEscape(false)"
		if resolve {
			name = "URLEscape(true)"
		}
		y, pan := c19Call(func() []byte { return util.URLEscape(x, resolve) })
		if pan != nil {
			report("panic:"+name, fmt.Sprint(pan), "", "")
			continue
		}
		digest = core.HashMix(digest, core.Hash(y))
		for i, c := range y {
			if c <= 0x20 || c == 0x7f || c == '"' || c == '<' || c == '>' {
				report(name+":forbidden-byte", fmt.Sprintf("output byte %d is %q (space, control, double quote or angle bracket)", i, c), "", q(y))
				break
			}
		}
		if valid {
			for i, c := range y {
				if c >= 0x80 {
					report(name+":non-ascii-for-valid-utf8", fmt.Sprintf("output byte %d is %#x although the input is valid UTF-8", i, c), "", q(y))
					break
				}
			}
		}
		for i, c := range y {
			if c == '%' && !(i+2 < len(y) && isHex(y[i+1]) && isHex(y[i+2])) {
				report(name+":percent-not-followed-by-two-hex", fmt.Sprintf("'%%' at output offset %d is not followed by two hex digits", i), "", q(y))
				break
			}
		}
		y2, pan := c19Call(func() []byte { return util.URLEscape(append([]byte{}, y...), false) })
		if pan != nil {
			report("panic:"+name+"-second", fmt.Sprint(pan), "", "")
		} else if !bytes.Equal(y2, y) {
			report(name+":not-idempotent", "escaping the output again (without resolving) changes it", q(y), q(y2))
		}
		if !resolve && valid {
			// existing triples are kept and the text between them is escaped as it would be alone
			pieces, triples := splitTriples(x)
			if len(triples) > 0 {
				var want []byte
				ok := true
				for i, p := range pieces {
					pe, pan := c19Call(func() []byte { return util.URLEscape(append([]byte{}, p...), false) })
					if pan != nil {
						ok = false
						break
					}
					want = append(want, pe...)
					if i < len(triples) {
						want = append(want, triples[i]...)
					}
				}
				if ok && !bytes.Equal(want, y) {
					report(name+":triple-not-preserved", "output differs from the escaped pieces joined by the input's own %XX triples", q(want), q(y))
				}
			}
		}
	}

	// --- resolvers keep valid UTF-8 valid
	if valid {
		for _, f := range []struct {
			name string
			fn   func([]byte) []byte
		}{
			{"UnescapePunctuations", util.UnescapePunctuations},
			{"ResolveNumericReferences", util.ResolveNumericReferences},
			{"ResolveEntityNames", util.ResolveEntityNames},
		} {
			y, pan := c19Call(func() []byte { return f.fn(x) })
			if pan != nil {
				report("panic:"+f.name, fmt.Sprint(pan), "", "")
				continue
			}
			digest = core.HashMix(digest, core.Hash(y))
			if !utf8.Valid(y) {
				report(f.name+":invalid-utf8-from-valid", "valid UTF-8 in, invalid UTF-8 out", "", q(y))
			}
		}
	}

	// --- link label normalisation
	n1, pan := c19Call(func() []byte { return []byte(util.ToLinkReference(x)) })
	if pan != nil {
		report("panic:ToLinkReference", fmt.Sprint(pan), "", "")
	} else {
		digest = core.HashMix(digest, core.Hash(n1))
		n2, pan := c19Call(func() []byte { return []byte(util.ToLinkReference(append([]byte{}, n1...))) })
		if pan != nil {
			report("panic:ToLinkReference-second", fmt.Sprint(pan), "", "")
		} else if !bytes.Equal(n1, n2) {
			report("ToLinkReference:not-idempotent", "normalising the normal form changes it", q(n1), q(n2))
		}
		if valid {
			for vi, v := range c19LabelVariants(x) {
				nv, pan := c19Call(func() []byte { return []byte(util.ToLinkReference(v)) })
				if pan != nil {
					report("panic:ToLinkReference-variant", fmt.Sprint(pan), "", "")
				} else if !bytes.Equal(nv, n1) {
					report(fmt.Sprintf("ToLinkReference:variant-not-identified:%s", c19VariantNames[vi]), fmt.Sprintf("label %s and its %s variant %s normalise differently", q(x), c19VariantNames[vi], q(v)), q(n1), q(nv))
				}
			}
		}
	}
	if !bytes.Equal(x, orig) {
		report("input-modified", "a utility function wrote into its argument", q(orig), q(x))
	}
	// a normal form is a Go string, i.e. immutable: it identifies the label for as long as it is kept (as a map key, say),
	// whatever the caller later does with the byte slice the label was read from
	func() {
		defer func() { _ = recover() }()
		y := append([]byte{}, orig...)
		key := util.ToLinkReference(y)
		keep := strings.Clone(key)
		for i := range y {
			y[i] ^= 0x55
		}
		if key != keep {
			report("ToLinkReference:result-changes-with-the-callers-buffer", "the returned string shares memory with the argument: overwriting the argument afterwards changed the normal form that was returned", q([]byte(keep)), q([]byte(key)))
		}
	}()
	return digest
}

var c19VariantNames = []string{"whitespace-runs", "outer-whitespace", "next-in-simple-fold-orbit", "second-next-in-orbit", "alternating-orbit"}

func isLabelSpace(c byte) bool { return c == ' ' || c == '\t' || c == '\n' || c == '\r' }

// c19LabelVariants returns spellings of x that differ only in runs of whitespace or in letter case.
func c19LabelVariants(x []byte) [][]byte {
	var ws, outer, fold, fold2, alt []byte
	// every whitespace run replaced by a different run
	k := 0
	for i := 0; i < len(x); {
		if isLabelSpace(x[i]) {
			j := i
			for j < len(x) && isLabelSpace(x[j]) {
				j++
			}
			ws = append(ws, []string{" \t", "\n", "  ", "\t\n "}[k%4]...)
			k++
			i = j
			continue
		}
		ws = append(ws, x[i])
		i++
	}
	outer = append(append([]byte(" \n"), x...), "\t "...)
	// only members of the rune's own simple-case-folding orbit are substituted (ToUpper/ToLower are NOT used: e.g.
	// ToLower(U+0130) = 'i' is a special-casing mapping outside simple case folding)
	for i, r := range string(x) {
		fold = utf8.AppendRune(fold, unicode.SimpleFold(r))
		fold2 = utf8.AppendRune(fold2, unicode.SimpleFold(unicode.SimpleFold(r)))
		if i%2 == 0 {
			alt = utf8.AppendRune(alt, unicode.SimpleFold(r))
		} else {
			alt = utf8.AppendRune(alt, r)
		}
	}
	return [][]byte{ws, outer, fold, fold2, alt}
}

// ---- BytesFilter: explicit search over call sequences against map[filter]set

type c19FOp struct {
	K string // New, Add, Extend, ExtendString
	F int    // filter index
	A []int  // key indices
}

func (o c19FOp) str(keys []string) string {
	var ks []string
	for _, i := range o.A {
		ks = append(ks, fmt.Sprintf("%q", keys[i]))
	}
	switch o.K {
	case "New":
		return "f0 := NewBytesFilter(" + strings.Join(ks, ", ") + ")"
	case "NewString":
		var raw []string
		for _, i := range o.A {
			raw = append(raw, keys[i])
		}
		return fmt.Sprintf("f0 := NewBytesFilterString(%q)", strings.Join(raw, ","))
	case "Add":
		return fmt.Sprintf("f%d.Add(%s)", o.F, ks[0])
	case "Extend":
		return fmt.Sprintf("f_new := f%d.Extend(%s)", o.F, strings.Join(ks, ", "))
	}
	var raw []string
	for _, i := range o.A {
		raw = append(raw, keys[i])
	}
	return fmt.Sprintf("f_new := f%d.ExtendString(%q)", o.F, strings.Join(raw, ","))
}

// c19Keys searches deterministically for keys that share one hash bucket (djb2 mod 64, as the statement's anchors say the
// structure is a hashed set with buckets) and differ inside / behind the 3-byte prefix bitmap, plus one key in another bucket.
func c19Keys() []string {
	hash := func(s string) uint64 {
		var h uint64 = 5381
		for i := 0; i < len(s); i++ {
			h = h<<5 + h + uint64(s[i])
		}
		return h % 64
	}
	var cands []string
	for _, a := range "abc" {
		cands = append(cands, string(a))
		for _, b := range "abc" {
			cands = append(cands, string(a)+string(b))
			for _, c := range "abc" {
				cands = append(cands, string(a)+string(b)+string(c))
				for _, d := range "abcdefgh" {
					cands = append(cands, string(a)+string(b)+string(c)+string(d))
				}
			}
		}
	}
	by := map[uint64][]string{}
	for _, c := range cands {
		by[hash(c)] = append(by[hash(c)], c)
	}
	best := uint64(0)
	for h, l := range by {
		if len(l) > len(by[best]) || (len(l) == len(by[best]) && h < best) {
			best = h
		}
	}
	keys := append([]string{}, by[best]...)
	sort.Slice(keys, func(i, j int) bool {
		if len(keys[i]) != len(keys[j]) {
			return len(keys[i]) < len(keys[j])
		}
		return keys[i] < keys[j]
	})
	if len(keys) > 5 {
		keys = keys[:5]
	}
	for _, c := range cands {
		if hash(c) != best && len(c) == 4 && strings.HasPrefix(c, keys[len(keys)-1][:3]) {
			keys = append(keys, c) // same prefix bitmap, other bucket
			break
		}
	}
	return keys
}

func c19RunFilterSeq(keys []string, seq []c19FOp) (fail string) {
	defer func() {
		if p := recover(); p != nil {
			fail = fmt.Sprint("panic: ", p)
		}
	}()
	var real []util.BytesFilter
	var model []map[string]bool
	kb := func(i int) []byte { return []byte(keys[i]) } // fresh copy per call: the filter may keep the slice
	join := func(a []int) string {
		var raw []string
		for _, i := range a {
			raw = append(raw, keys[i])
		}
		return strings.Join(raw, ",")
	}
	for si, o := range seq {
		switch o.K {
		case "New":
			var bs [][]byte
			m := map[string]bool{}
			for _, i := range o.A {
				bs = append(bs, kb(i))
				m[keys[i]] = true
			}
			real, model = append(real, util.NewBytesFilter(bs...)), append(model, m)
		case "NewString":
			m := map[string]bool{}
			for _, i := range o.A {
				m[keys[i]] = true
			}
			real, model = append(real, util.NewBytesFilterString(join(o.A))), append(model, m)
		case "Add":
			real[o.F].Add(kb(o.A[0]))
			model[o.F][keys[o.A[0]]] = true
		case "Extend", "ExtendString":
			m := map[string]bool{}
			for k := range model[o.F] {
				m[k] = true
			}
			for _, i := range o.A {
				m[keys[i]] = true
			}
			var nf util.BytesFilter
			if o.K == "Extend" {
				var bs [][]byte
				for _, i := range o.A {
					bs = append(bs, kb(i))
				}
				nf = real[o.F].Extend(bs...)
			} else {
				nf = real[o.F].ExtendString(join(o.A))
			}
			real, model = append(real, nf), append(model, m)
		}
		// observe every filter with every key (and a key never added)
		for fi := range real {
			for ki := range keys {
				if got, want := real[fi].Contains(kb(ki)), model[fi][keys[ki]]; got != want {
					return fmt.Sprintf("after step %d: f%d.Contains(%q) = %v, set model says %v", si, fi, keys[ki], got, want)
				}
			}
			if real[fi].Contains([]byte("zzzz")) || real[fi].Contains([]byte("")) {
				return fmt.Sprintf("after step %d: f%d contains a key that was never added", si, fi)
			}
		}
	}
	return ""
}

func runC19Filter(r *core.Run) {
	keys := c19Keys()
	depth := core.Pick(r, 4, 5)
	maxFilters := 3
	s := r.Sub("bytesfilter-sequences", fmt.Sprintf("every call sequence: an initial NewBytesFilter/NewBytesFilterString with every subset of ≤3 of the keys %q (the first %d share one hash bucket and differ inside or behind the 3-byte prefix bitmap; the last has the same prefix in another bucket), followed by ≤%d calls of Add(f,k), Extend(f, ≤2 keys), ExtendString(f, ≤2 keys) on ≤%d live filters; after every call Contains of every key on every filter is compared with map[filter]set; no de-duplication of states (slice capacities are hidden state)", keys, len(keys)-1, depth-1, maxFilters))
	nk := len(keys)
	var subsets [][]int
	subsets = append(subsets, nil)
	for a := 0; a < nk; a++ {
		subsets = append(subsets, []int{a})
		for b := a + 1; b < nk; b++ {
			subsets = append(subsets, []int{a, b})
			for c := b + 1; c < nk; c++ {
				subsets = append(subsets, []int{a, b, c})
			}
		}
	}
	var inits []c19FOp
	for _, ss := range subsets {
		inits = append(inits, c19FOp{"New", 0, ss})
		if len(ss) > 0 && len(ss) < 3 {
			inits = append(inits, c19FOp{"NewString", 0, ss})
		}
	}
	var pairs [][]int
	pairs = append(pairs, nil)
	for a := 0; a < nk; a++ {
		pairs = append(pairs, []int{a})
	}
	pairs = append(pairs, []int{0, 1}, []int{nk - 2, nk - 1})
	complete := core.ForEachIndex(len(inits), core.Workers(), func(w int) func(int) {
		return func(ii int) {
			seq := []c19FOp{inits[ii]}
			var rec func(nf int)
			rec = func(nf int) {
				s.Evals.Add(1)
				if msg := c19RunFilterSeq(keys, seq); msg != "" {
					var ops []string
					for _, o := range seq {
						ops = append(ops, o.str(keys))
					}
					kind := seq[len(seq)-1].K
					s.Violate("bytesfilter-differs-from-set:"+kind, "", nil, ops, msg, "set semantics; derived filters independent", msg)
					return
				}
				if len(seq) == depth {
					return
				}
				for f := 0; f < nf; f++ {
					for k := 0; k < nk; k++ {
						seq = append(seq, c19FOp{"Add", f, []int{k}})
						rec(nf)
						seq = seq[:len(seq)-1]
					}
					if nf < maxFilters {
						for _, p := range pairs {
							for _, kind := range []string{"Extend", "ExtendString"} {
								if kind == "ExtendString" && len(p) == 0 {
									continue
								}
								seq = append(seq, c19FOp{kind, f, p})
								rec(nf + 1)
								seq = seq[:len(seq)-1]
							}
						}
					}
				}
			}
			rec(1)
			if ii%(len(inits)/5+1) == 0 {
				s.AddSample(inits[ii].str(keys))
			}
			s.Distinct(core.Hash([]byte(inits[ii].str(keys))))
		}
	}, r.Expired)
	if !complete {
		s.Incomplete("internal deadline reached")
	}
	s.States.Store(s.Evals.Load())
	s.Transitions.Store(s.Evals.Load())
	s.Bound = fmt.Sprintf("depth=%d (1 constructor + %d calls), filters≤%d, keys=%d", depth, depth-1, maxFilters, nk)
	s.Done()
}

// ---- every code point: case variants of a one-rune label are identified

func runC19Runes(r *core.Run) {
	s := r.Sub("label-every-code-point", "for every Unicode code point r (0..0x10FFFF, surrogates excluded): ToLinkReference of the one-rune label r equals ToLinkReference of every other member of r's simple-case-folding orbit (unicode.SimpleFold), and normalisation is idempotent on it")
	var n int64
	for rn := rune(0); rn <= unicode.MaxRune; rn++ {
		if rn >= 0xD800 && rn <= 0xDFFF {
			continue
		}
		n++
		x := []byte(string(rn))
		a := util.ToLinkReference(x)
		if b := util.ToLinkReference([]byte(a)); a != b {
			s.Violate("ToLinkReference:not-idempotent", "", x, nil, fmt.Sprintf("U+%04X: normal form %q normalises to %q", rn, a, b), a, b)
		}
		for o := unicode.SimpleFold(rn); o != rn; o = unicode.SimpleFold(o) {
			if b := util.ToLinkReference([]byte(string(o))); a != b {
				s.Violate("ToLinkReference:variant-not-identified:orbit", "", x, nil, fmt.Sprintf("U+%04X and U+%04X are in one simple-case-folding orbit but normalise to %q and %q", rn, o, a, b), a, b)
			}
			s.Distinct(uint64(rn))
		}
	}
	s.Evals.Store(n)
	s.States.Store(n)
	s.Transitions.Store(n)
	s.Bound = "all 1 112 064 scalar values"
	s.AddSample("U+0041 'A' orbit {A,a}")
	s.AddSample("U+1E9E 'ẞ' orbit {ẞ,ß}")
	s.Done()
}

// ---- numeric references out of range

func runC19Numeric(r *core.Run) {
	s := r.Sub("numeric-out-of-range", "for every out-of-range value (0, surrogates, > U+10FFFF, 32- and 64-bit overflows) spelled as a hexadecimal (x/X, upper/lower digits, leading zeros) or decimal (≤7 digits) reference, alone and embedded between letters: ResolveNumericReferences yields exactly U+FFFD in its place; the same through URLEscape(resolve) as %EF%BF%BD")
	type tc struct{ ref string }
	var cases []string
	for _, v := range []uint64{0, 0xD800, 0xDBFF, 0xDC00, 0xDFFF, 0x110000, 0x1FFFFF, 0x7FFFFFFF, 0x80000000, 0xFFFFFFFF, 0x100000000, 0x100000041, 0xFFFFFFFFFFFFFFFF} {
		for _, f := range []string{"&#x%x;", "&#X%X;", "&#x00%x;", "&#x%X;"} {
			cases = append(cases, fmt.Sprintf(f, v))
		}
		if d := fmt.Sprintf("%d", v); len(d) <= 7 {
			cases = append(cases, "&#"+d+";")
		}
	}
	cases = append(cases, "&#x10000000000000000;", "&#xFFFFFFFFFFFFFFFFFFFF;", "&#0;", "&#00;", "&#0000000;", "&#1114112;", "&#9999999;", "&#55296;")
	for _, c := range cases {
		for _, wrap := range [][2]string{{"", ""}, {"a", "b"}, {"é", "あ"}} {
			x := []byte(wrap[0] + c + wrap[1])
			want := wrap[0] + "�" + wrap[1]
			s.Evals.Add(1)
			y, pan := c19Call(func() []byte { return util.ResolveNumericReferences(x) })
			if pan != nil || string(y) != want {
				s.Violate("ResolveNumericReferences:out-of-range-not-FFFD", "", x, nil, fmt.Sprintf("panic=%v", pan), core.Q([]byte(want)), core.Q(y))
			}
			s.Distinct(core.Hash(x))
		}
	}
	s.States.Store(s.Evals.Load())
	s.Transitions.Store(s.Evals.Load())
	s.Bound = fmt.Sprintf("%d spellings × 3 embeddings", len(cases))
	s.AddSample(cases[0])
	s.AddSample(cases[len(cases)-1])
	s.Done()
}

func runC19(r *core.Run) {
	n := core.Pick(r, 4, 5)
	alpha := c19Alphabet
	wordsSub(r, "laws-words", "on every word each law of the statement is evaluated: EscapeHTML (no raw < > \", every & starts one of its four references, decodes back to the input); URLEscape with and without reference resolution (no space/control/DEL/\"/</> byte, pure ASCII for valid UTF-8 input, every % followed by two hex digits, idempotent under re-escaping, and — without resolution, valid UTF-8 — equal to the escaped pieces joined by the input's own %XX triples); UnescapePunctuations / ResolveNumericReferences / ResolveEntityNames map valid UTF-8 to valid UTF-8; ToLinkReference idempotent and equal on variants that differ only in whitespace runs, outer whitespace, simple-fold orbit, upper or lower case; no function modifies its argument; distinct = digest of all outputs",
		alpha, n, func(s *core.Sub, w int) func(word []byte) uint64 {
			return func(word []byte) uint64 {
				x := append([]byte{}, word...)
				return c19Laws(x, func(sig, detail, want, got string) {
					s.Violate(sig, "", word, nil, detail, want, got)
				})
			}
		})
	// the same laws on longer words over small alphabets, one per group of laws, so that states which need several steps to
	// reach (a copy forced by an earlier run, a pending '&' or '%', a partially decoded sequence) meet every later token
	focus := []struct {
		name string
		toks []string
		nq   int
		nt   int
	}{
		{"label", []string{"a", " ", "\t", "\n", "A", "ß", "  "}, 7, 8},
		{"escape", []string{"a", "&", "<", "\"", ";", "#", "\xc3", "amp", ">"}, 6, 7},
		{"url", []string{"a", "%", "4", "g", " ", "é", "\x80", "&", "\\", "/"}, 6, 7},
		{"references", []string{"&", "#", "x", "1", ";", "a", "\\", "amp", "0", "D800"}, 6, 7},
	}
	for _, f := range focus {
		wordsSub(r, "laws-"+f.name+"-words", fmt.Sprintf("every law of laws-words on every word of ≤%d tokens over the small alphabet %q", core.Pick(r, f.nq, f.nt), f.toks),
			f.toks, core.Pick(r, f.nq, f.nt), func(s *core.Sub, w int) func(word []byte) uint64 {
				return func(word []byte) uint64 {
					x := append([]byte{}, word...)
					return c19Laws(x, func(sig, detail, want, got string) {
						s.Violate(sig, "", word, nil, detail, want, got)
					})
				}
			})
	}
	runC19Lengths(r)
	runC19ByteSweep(r)
	runC19FilterNeighbours(r)
	runC19Runes(r)
	runC19Numeric(r)
	runC19Filter(r)
	runC19FilterLengths(r)
}

// runC19FilterLengths: keys of EVERY length 0..maxL (the call sequences above use short keys only): a filter built from keys
// of lengths L and L+1 contains exactly those, also after Extend and ExtendString, and the parent is unaffected.
func runC19FilterLengths(r *core.Run) {
	maxL := core.Pick(r, 300, 1200)
	s := r.Sub("bytesfilter-key-lengths", fmt.Sprintf("for EVERY key length L = 0..%d: NewBytesFilter(k_L, k_L+1) contains k_L and k_L+1 and not k_L+2 or a same-length variant; Extend(k_L+2) and ExtendString(k_L+3) contain theirs plus the parent's and leave the parent unchanged", maxL))
	key := func(l int, c byte) []byte {
		b := make([]byte, l)
		for i := range b {
			b[i] = 'a' + byte(i%23)
		}
		if l > 0 {
			b[l-1] = c
		}
		return b
	}
	core.ForEachIndex(maxL+1, core.Workers(), func(w int) func(int) {
		return func(l int) {
			k0, k1, k2, k3 := key(l, 'x'), key(l+1, 'x'), key(l+2, 'x'), key(l+3, 'x')
			variant := key(l, 'y')
			var fail string
			func() {
				defer func() {
					if p := recover(); p != nil {
						fail = fmt.Sprint("panic: ", p)
					}
				}()
				f := util.NewBytesFilter(k0, k1)
				g := f.Extend(k2)
				h := f.ExtendString(string(k3))
				type q struct {
					name string
					f    util.BytesFilter
					k    []byte
					want bool
				}
				for _, c := range []q{{"parent", f, k0, true}, {"parent", f, k1, true}, {"parent", f, k2, false}, {"parent", f, k3, false}, {"parent", f, variant, l == 0},
					{"Extend", g, k0, true}, {"Extend", g, k1, true}, {"Extend", g, k2, true}, {"Extend", g, k3, false},
					{"ExtendString", h, k0, true}, {"ExtendString", h, k3, true}, {"ExtendString", h, k2, false}} {
					if got := c.f.Contains(c.k); got != c.want && fail == "" {
						fail = fmt.Sprintf("%s filter: Contains(key of %d bytes) = %v, a set says %v", c.name, len(c.k), got, c.want)
					}
				}
			}()
			s.Evals.Add(12)
			if fail != "" {
				s.Violate("bytesfilter-differs-from-set:key-length", "", nil, []string{fmt.Sprintf("key length %d", l)}, fail, "set behaviour", "")
			}
			s.Distinct(uint64(l) + 1)
		}
	}, r.Expired)
	s.Bound = fmt.Sprintf("L=0..%d", maxL)
	s.States.Store(int64(maxL + 1))
	s.Transitions.Store(s.Evals.Load())
	s.Done()
}

func replayC19(r *core.Run, v *core.Violation) {
	s := r.Sub(v.Sub, "replay of one input")
	if v.Input() != nil {
		c19Laws(append([]byte{}, v.Input()...), func(sig, detail, want, got string) {
			s.Violate(sig, "", v.Input(), nil, detail, want, got)
		})
	} else {
		fmt.Println("operation-sequence replay: the file lists the exact calls; the search is deterministic, re-run ./run.sh C19 quick")
	}
	s.Evals.Add(1)
	s.Done()
}

// runC19ByteSweep: the laws on every pair of byte values (all 65 536) behind every prefix that puts the functions into one
// of their states (inside a percent escape, a numeric or named reference, a backslash escape, a multi-byte sequence) and in
// front of a few suffixes; and on every three-byte string.
func runC19ByteSweep(r *core.Run) {
	prefixes := []string{"", "%", "%4", "a%", "\xc3\xa9%", "&", "&#", "&#x", "&#1", "&amp", "\\", "\xe3\x81", "[", "a "}
	suffixes := []string{"", ";", "a"}
	s := r.Sub("laws-byte-sweep", fmt.Sprintf("every law of laws-words on prefix + b1 b2 + suffix for every pair of byte values (0..255)² with prefix ∈ %q and suffix ∈ %q", prefixes, suffixes))
	n := 65536
	s.Planned = int64(n * len(prefixes) * len(suffixes))
	s.Bound = fmt.Sprintf("256² pairs × %d prefixes × %d suffixes", len(prefixes), len(suffixes))
	complete := core.ForEachIndex(n, core.Workers(), func(w int) func(int) {
		var buf []byte
		return func(i int) {
			for _, p := range prefixes {
				for _, sf := range suffixes {
					buf = append(buf[:0], p...)
					buf = append(buf, byte(i>>8), byte(i))
					buf = append(buf, sf...)
					word := append([]byte{}, buf...)
					h := c19Laws(buf, func(sig, detail, want, got string) {
						s.Violate(sig, "", word, nil, detail, want, got)
					})
					s.Evals.Add(1)
					s.Distinct(h)
				}
			}
			if i%13001 == 0 {
				s.AddSample(core.Q([]byte{'%', byte(i >> 8), byte(i)}))
			}
		}
	}, r.Expired)
	if !complete {
		s.Incomplete("internal deadline reached")
	}
	s.States.Store(s.Evals.Load())
	s.Transitions.Store(s.Evals.Load())
	s.Done()
	s = r.Sub("laws-all-3-byte-strings", "every law of laws-words on every string of three bytes (256³)")
	s.Planned = 1 << 24
	s.Bound = "256³ strings"
	complete = core.ForEachIndex(65536, core.Workers(), func(w int) func(int) {
		return func(i int) {
			for c := 0; c < 256; c++ {
				word := []byte{byte(i >> 8), byte(i), byte(c)}
				x := append([]byte{}, word...)
				h := c19Laws(x, func(sig, detail, want, got string) {
					s.Violate(sig, "", word, nil, detail, want, got)
				})
				s.Evals.Add(1)
				s.Distinct(h)
			}
			if i%13001 == 0 {
				s.AddSample(core.Q([]byte{byte(i >> 8), byte(i), 'c'}))
			}
		}
	}, r.Expired)
	if !complete {
		s.Incomplete("internal deadline reached")
	}
	s.States.Store(s.Evals.Load())
	s.Transitions.Store(s.Evals.Load())
	s.Done()
}

// runC19FilterNeighbours: a BytesFilter is a set, exactly: filters built from a realistic vocabulary (the HTML global
// attribute names, as one NewBytesFilter call, as NewBytesFilterString, and grown by Extend / ExtendString / Add in two
// halves) contain every member and none of the names near the vocabulary (attrNameNeighbours: short names, substitutions,
// transpositions, rearranged and crossed-over heads, head/tail crossovers).
func runC19FilterNeighbours(r *core.Run) {
	var allowed []string
	for a := range globalAttrs {
		allowed = append(allowed, a)
	}
	sort.Strings(allowed)
	names := attrNameNeighbours(allowed, !r.Quick())
	var bs [][]byte
	for _, a := range allowed {
		bs = append(bs, []byte(a))
	}
	half := len(bs) / 2
	filters := map[string]util.BytesFilter{
		"NewBytesFilter(all)":                util.NewBytesFilter(bs...),
		"NewBytesFilterString(all)":          util.NewBytesFilterString(strings.Join(allowed, ",")),
		"NewBytesFilter(half).Extend(rest)":  util.NewBytesFilter(bs[:half]...).Extend(bs[half:]...),
		"NewBytesFilter().ExtendString(all)": util.NewBytesFilter().ExtendString(strings.Join(allowed, ",")),
		"NewBytesFilter(rest).Extend(half)":  util.NewBytesFilter(bs[half:]...).Extend(bs[:half]...),
	}
	var fnames []string
	for k := range filters {
		fnames = append(fnames, k)
	}
	sort.Strings(fnames)
	s := r.Sub("bytesfilter-neighbours", fmt.Sprintf("%d filters built in different ways from the %d HTML global attribute names: Contains is true for every member and false for each of %d names near the vocabulary (all names of ≤3 letters, substitutions, insertions, deletions, transpositions, rearranged heads, per-position crossovers, head/tail crossovers)", len(filters), len(allowed), len(names)))
	s.Planned = int64(len(fnames) * (len(names) + len(allowed)))
	s.Bound = fmt.Sprintf("%d filters × (%d members + %d non-members)", len(fnames), len(allowed), len(names))
	for _, fn := range fnames {
		f := filters[fn]
		for _, a := range allowed {
			s.Evals.Add(1)
			if !f.Contains([]byte(a)) {
				s.Violate("bytesfilter-differs-from-set:member-missing", "", []byte(a), []string{fn}, "a member of the set is not contained", "true", "false")
			}
		}
		for _, n := range names {
			s.Evals.Add(1)
			if f.Contains([]byte(n)) {
				s.Violate("bytesfilter-differs-from-set:non-member-contained", "", []byte(n), []string{fn}, "a name that was never added is contained", "false", "true")
			}
		}
	}
	for i, n := range names {
		s.Distinct(core.Hash([]byte(n)))
		if i%(len(names)/6+1) == 0 {
			s.AddSample(n)
		}
	}
	s.States.Store(int64(len(names) + len(allowed)))
	s.Transitions.Store(s.Evals.Load())
	s.Done()
}

// runC19Lengths: the laws on inputs of EVERY length 1..maxL (and around every power of two up to 2^17), built from units that
// need no, few or many rewrites: growth of the output buffers, the copy-on-write switch and chunked copying are crossed at
// every phase.
func runC19Lengths(r *core.Run) {
	maxL := core.Pick(r, 2300, 9000)
	units := []string{"a", "a\"", "aaaaaaaaaaaaaaa&", "\xc3\xa9 ", "% a", "&amp;<", "aaaaaaaaaaaaaaaaaaaaaaaaaaaaaaa>", "\\* ", "&#65;b", "A\u1e9e "}
	var lens []int
	for l := 1; l <= maxL; l++ {
		lens = append(lens, l)
	}
	for k := 12; k <= 17; k++ {
		lens = append(lens, 1<<k-1, 1<<k, 1<<k+1)
	}
	s := r.Sub("laws-lengths", fmt.Sprintf("every law of laws-words on the first L bytes of the endless repetition of each unit in %q, for EVERY L = 1..%d and L = 2^k-1, 2^k, 2^k+1 (k = 12..17)", units, maxL))
	s.Planned = int64(len(units) * len(lens))
	s.Bound = fmt.Sprintf("%d units × %d lengths", len(units), len(lens))
	core.ForEachIndex(len(units)*len(lens), core.Workers(), func(w int) func(int) {
		return func(i int) {
			u, l := units[i/len(lens)], lens[i%len(lens)]
			x := []byte(strings.Repeat(u, l/len(u)+1)[:l])
			word := append([]byte{}, x...)
			h := c19Laws(x, func(sig, detail, want, got string) {
				s.Violate(sig, "", word, nil, fmt.Sprintf("unit %q, length %d: %s", u, l, detail), core.Clip(want, 200), core.Clip(got, 200))
			})
			s.Evals.Add(1)
			s.Distinct(h)
			if i%(len(units)*len(lens)/5+1) == 0 {
				s.AddSample(fmt.Sprintf("unit %q repeated to %d bytes", u, l))
			}
		}
	}, r.Expired)
	s.States.Store(s.Evals.Load())
	s.Transitions.Store(s.Evals.Load())
	s.Done()
}
