package props

import (
	"fmt"
	"strings"
)

// ---- model documents (CommonMark constructs whose meaning is fixed by construction)

const (
	iWord   = iota
	iEsc    // one literal punctuation character, spelled as an escape
	iCode   // code span
	iEm     // emphasis
	iStrong // strong emphasis
	iLink
	iImage
	iAuto
	iRaw // raw inline HTML
	iHard
	iSoft
)

type Inl struct {
	K     int
	S     string // word, escaped char, code text, URL, raw tag
	Kids  []Inl
	Dest  string // link/image destination as it must appear decoded; a trailing \x01c means "literal c written as an escape"
	Title string
}

const (
	bPara = iota
	bHeading
	bThematic
	bCode
	bQuote
	bList
	bHTML
)

type Blk struct {
	K       int
	Level   int
	Inl     []Inl
	Info    string
	Text    string // code text without the final newline; lines separated by \n
	Kids    []Blk
	Ordered bool
	Start   int
	Tight   bool
	Items   [][]Blk
	Raw     string
}

func hasBreak(seq []Inl) bool {
	for _, x := range seq {
		if x.K == iHard || x.K == iSoft || hasBreak(x.Kids) {
			return true
		}
	}
	return false
}

// ---- reference renderer: a transcription of the reference implementation's HTML renderer (commonmark.js), with its
// cr() discipline, in XHTML style as used by spec.json

type refOut struct{ b strings.Builder }

func (o *refOut) lit(s string) { o.b.WriteString(s) }
func (o *refOut) cr() {
	s := o.b.String()
	if len(s) > 0 && s[len(s)-1] != '\n' {
		o.b.WriteByte('\n')
	}
}

func escHTML(s string) string {
	r := strings.NewReplacer("&", "&amp;", "<", "&lt;", ">", "&gt;", "\"", "&quot;")
	return r.Replace(s)
}

// refURL percent-encodes a destination the way the reference implementation does (mdurl.encode with the default
// exclusion set): ASCII letters, digits and ;/?:@&=+$,-_.!~*'()# stay, existing %XX stay, everything else is encoded.
func refURL(u string) string {
	var b strings.Builder
	for i := 0; i < len(u); i++ {
		c := u[i]
		switch {
		case c >= 'a' && c <= 'z' || c >= 'A' && c <= 'Z' || c >= '0' && c <= '9' || strings.IndexByte(";/?:@&=+$,-_.!~*'()#", c) >= 0:
			b.WriteByte(c)
		case c == '%' && i+2 < len(u) && isHex(u[i+1]) && isHex(u[i+2]):
			b.WriteByte(c)
		default:
			fmt.Fprintf(&b, "%%%02X", c)
		}
	}
	return b.String()
}

// decodeDest turns the model's destination/title notation into the literal text.
func decodeLit(s string) string { return strings.ReplaceAll(s, "\x01", "") }

func plainText(seq []Inl) string {
	var b strings.Builder
	for i, x := range seq {
		if i > 0 && x.K != iHard && x.K != iSoft && seq[i-1].K != iHard && seq[i-1].K != iSoft {
			b.WriteByte(' ')
		}
		switch x.K {
		case iWord, iEsc, iCode:
			b.WriteString(x.S)
		case iEm, iStrong, iLink, iImage:
			b.WriteString(plainText(x.Kids))
		case iAuto:
			b.WriteString(x.S)
		case iHard, iSoft:
			b.WriteByte('\n')
		}
	}
	return b.String()
}

func (o *refOut) inlines(seq []Inl) {
	for i, x := range seq {
		if i > 0 && x.K != iHard && x.K != iSoft && seq[i-1].K != iHard && seq[i-1].K != iSoft {
			o.lit(" ")
		}
		switch x.K {
		case iWord, iEsc:
			o.lit(escHTML(x.S))
		case iCode:
			o.lit("<code>" + escHTML(x.S) + "</code>")
		case iEm:
			o.lit("<em>")
			o.inlines(x.Kids)
			o.lit("</em>")
		case iStrong:
			o.lit("<strong>")
			o.inlines(x.Kids)
			o.lit("</strong>")
		case iLink:
			o.lit("<a href=\"" + escHTML(refURL(decodeLit(x.Dest))) + "\"")
			if x.Title != "" {
				o.lit(" title=\"" + escHTML(decodeLit(x.Title)) + "\"")
			}
			o.lit(">")
			o.inlines(x.Kids)
			o.lit("</a>")
		case iImage:
			o.lit("<img src=\"" + escHTML(refURL(decodeLit(x.Dest))) + "\" alt=\"" + escHTML(plainText(x.Kids)) + "\"")
			if x.Title != "" {
				o.lit(" title=\"" + escHTML(decodeLit(x.Title)) + "\"")
			}
			o.lit(" />")
		case iAuto:
			href := x.S
			if !strings.Contains(x.S, ":") {
				href = "mailto:" + x.S
			}
			o.lit("<a href=\"" + escHTML(refURL(href)) + "\">" + escHTML(x.S) + "</a>")
		case iRaw:
			o.lit(x.S)
		case iHard:
			o.lit("<br />")
			o.cr()
		case iSoft:
			o.lit("\n")
		}
	}
}

func (o *refOut) blocks(bs []Blk, tight bool) {
	for _, b := range bs {
		switch b.K {
		case bPara:
			if tight {
				o.inlines(b.Inl)
			} else {
				o.cr()
				o.lit("<p>")
				o.inlines(b.Inl)
				o.lit("</p>")
				o.cr()
			}
		case bHeading:
			o.cr()
			o.lit(fmt.Sprintf("<h%d>", b.Level))
			o.inlines(b.Inl)
			o.lit(fmt.Sprintf("</h%d>", b.Level))
			o.cr()
		case bThematic:
			o.cr()
			o.lit("<hr />")
			o.cr()
		case bCode:
			o.cr()
			o.lit("<pre><code")
			if b.Info != "" {
				o.lit(" class=\"language-" + escHTML(strings.Fields(decodeLit(b.Info))[0]) + "\"")
			}
			o.lit(">")
			if b.Text != "\x00" {
				o.lit(escHTML(b.Text) + "\n")
			}
			o.lit("</code></pre>")
			o.cr()
		case bQuote:
			o.cr()
			o.lit("<blockquote>")
			o.cr()
			o.blocks(b.Kids, false)
			o.cr()
			o.lit("</blockquote>")
			o.cr()
		case bList:
			o.cr()
			if b.Ordered {
				if b.Start != 1 {
					o.lit(fmt.Sprintf("<ol start=\"%d\">", b.Start))
				} else {
					o.lit("<ol>")
				}
			} else {
				o.lit("<ul>")
			}
			o.cr()
			for _, it := range b.Items {
				o.lit("<li>")
				o.blocks(it, b.Tight)
				o.lit("</li>")
				o.cr()
			}
			o.cr()
			if b.Ordered {
				o.lit("</ol>")
			} else {
				o.lit("</ul>")
			}
			o.cr()
		case bHTML:
			o.cr()
			o.lit(b.Raw)
			o.cr()
		}
	}
}

// RefHTML is the HTML the specification prescribes for the model document.
func RefHTML(doc []Blk) string {
	o := &refOut{}
	o.blocks(doc, false)
	return o.b.String()
}

// ---- printer with spelling choices

type choicePoint struct {
	Name string
	N    int
}

type chooser struct {
	over   map[int]int
	prefer map[string]int // canonical option per choice name when it is not 0
	n      int
	log    []choicePoint
}

// pick returns the option for the next choice point: the override if one is set, else the default 0.
func (c *chooser) pick(name string, n int) int {
	i := c.n
	c.n++
	c.log = append(c.log, choicePoint{name, n})
	if n <= 1 {
		return 0
	}
	def := 0
	if v, ok := c.prefer[name]; ok && v < n {
		def = v
	}
	if v, ok := c.over[i]; ok && v < n {
		// overrides count from the canonical option: 1 = "next after canonical", wrapping around
		return (def + v) % n
	}
	return def
}

type refDef struct{ label, dest, title string }

type pline struct {
	s    string
	cont bool // continuation line of a paragraph (may be written lazily)
}

type mdPrinter struct {
	ch       *chooser
	defs     []refDef
	depth    int    // container depth (tabs are only used at depth 0, where columns are absolute)
	lastMark string // marker character / delimiter of the list printed last at the current nesting level
	col      int    // absolute column at which the content of the current container starts; -1 = unknown
	gapLoose bool   // the items being printed belong to a loose list of ≥2 items (the blank line between items makes it loose)
}

// tabOK reports whether a tab written at the start of the current container's content advances exactly four columns.
func (p *mdPrinter) tabOK() bool { return p.col >= 0 && p.col%4 == 0 }

var namedEnt = map[string]string{"*": "ast", "_": "lowbar", "`": "grave", "<": "lt", ">": "gt", "&": "amp", "\"": "quot", "\\": "bsol", "[": "lsqb", "]": "rsqb", "#": "num", "!": "excl", "(": "lpar", ")": "rpar", "-": "hyphen", "+": "plus", "=": "equals", "~": "tilde"}

func (p *mdPrinter) esc(c string, what string) string {
	named := namedEnt[c]
	n := 6
	if named == "" {
		n = 5
	}
	k := p.ch.pick("escape-"+what, n)
	if k == 0 && !strings.Contains("!\"#$%&'()*+,-./:;<=>?@[\\]^_`{|}~", c) {
		k = 1 // only ASCII punctuation can be backslash-escaped
	}
	switch k {
	case 0:
		return "\\" + c
	case 1:
		return fmt.Sprintf("&#%d;", c[0])
	case 2:
		return fmt.Sprintf("&#x%x;", c[0])
	case 3:
		return fmt.Sprintf("&#X%X;", c[0])
	case 4:
		return fmt.Sprintf("&#%05d;", c[0])
	}
	return "&" + named + ";"
}

// lit writes a destination/title in which \x01c marks a character to be written as an escape.
func (p *mdPrinter) lit(s, what string) string {
	var b strings.Builder
	for i := 0; i < len(s); i++ {
		if s[i] == 1 && i+1 < len(s) {
			b.WriteString(p.esc(string(s[i+1]), what))
			i++
			continue
		}
		b.WriteByte(s[i])
	}
	return b.String()
}

func simpleLabel(seq []Inl) bool {
	for i, x := range seq {
		if x.K == iSoft && i > 0 && i < len(seq)-1 {
			continue // a label may span lines
		}
		if x.K != iWord {
			return false
		}
	}
	return len(seq) > 0
}

func (p *mdPrinter) label(dest, title string) string {
	for _, d := range p.defs {
		if d.dest == dest && d.title == title && d.label != "\x00unclosed" {
			return d.label
		}
	}
	p.defs = append(p.defs, refDef{fmt.Sprintf("lbl%d two three", len(p.defs)), dest, title})
	return p.defs[len(p.defs)-1].label
}

func (p *mdPrinter) linkTail(x Inl, text string, kids []Inl) string {
	nopt := 9
	if simpleLabel(kids) {
		nopt = 11
	}
	c := p.ch.pick("link-form", nopt)
	dest := p.lit(x.Dest, "dest")
	title := p.lit(x.Title, "title")
	switch c {
	case 0, 1, 2, 3:
		d := dest
		if c == 1 {
			d = "<" + dest + ">"
		}
		if x.Title == "" {
			if c >= 2 {
				return "( " + d + " )" // spaces inside the parentheses are allowed
			}
			return "(" + d + ")"
		}
		switch c {
		case 2:
			return "(" + d + " '" + title + "')"
		case 3:
			return "(" + d + " (" + title + "))"
		}
		return "(" + d + " \"" + title + "\")"
	case 4, 5, 6, 7, 8:
		l := p.label(x.Dest, x.Title)
		switch c {
		case 5:
			l = strings.ToUpper(l)
		case 6:
			l = " " + l + "\n" // leading/trailing whitespace and a line ending inside the label
			l = " " + strings.TrimSpace(l) + " "
		case 7:
			l = strings.Replace(l, " ", "   ", 1) // a wide run first, single spaces after it
		case 8:
			l = strings.ToUpper(strings.Replace(l, " ", " \t", 1))
		}
		return "[" + l + "]"
	}
	// collapsed / shortcut: the text itself is the label (a label that spans lines is written on one line in its definition)
	text = strings.Join(strings.Fields(text), " ")
	found := false
	for _, d := range p.defs {
		if d.label == text && d.dest == x.Dest && d.title == x.Title {
			found = true
		}
	}
	if !found {
		for _, d := range p.defs {
			if strings.EqualFold(d.label, text) {
				// the same text already names another target: fall back to a full reference
				return "[" + p.label(x.Dest, x.Title) + "]"
			}
		}
		p.defs = append(p.defs, refDef{text, x.Dest, x.Title})
	}
	if c == 9 {
		return "[]"
	}
	return ""
}

func (p *mdPrinter) inlines(seq []Inl) string {
	var b strings.Builder
	for i, x := range seq {
		if i > 0 && x.K != iHard && x.K != iSoft && seq[i-1].K != iHard && seq[i-1].K != iSoft {
			b.WriteByte(' ')
		}
		switch x.K {
		case iWord:
			b.WriteString(x.S)
		case iEsc:
			b.WriteString(p.esc(x.S, "text"))
		case iCode:
			ticks := "`"
			if strings.Contains(x.S, "`") {
				ticks = "``"
			}
			pad := ""
			if strings.HasPrefix(x.S, "`") || strings.HasSuffix(x.S, "`") || (strings.HasPrefix(x.S, " ") && strings.HasSuffix(x.S, " ") && strings.TrimSpace(x.S) != "") {
				pad = " "
			}
			switch p.ch.pick("code-span", 3) {
			case 1:
				ticks += "`"
				if strings.Contains(x.S, ticks) {
					ticks += "`"
				}
			case 2:
				if strings.TrimSpace(x.S) != "" {
					pad = " "
				}
			}
			b.WriteString(ticks + pad + x.S + pad + ticks)
		case iEm, iStrong:
			d := "*"
			if p.ch.pick("emphasis-char", 2) == 1 {
				d = "_"
			}
			// a directly nested emphasis uses the other character so that delimiter runs stay separate
			inner := p.inlinesAlt(x.Kids, d)
			if x.K == iStrong {
				d += d
			}
			b.WriteString(d + inner + d)
		case iLink:
			text := p.inlines(x.Kids)
			b.WriteString("[" + text + "]" + p.linkTail(x, text, x.Kids))
		case iImage:
			text := p.inlines(x.Kids)
			b.WriteString("![" + text + "]" + p.linkTail(x, text, x.Kids))
		case iAuto:
			b.WriteString("<" + x.S + ">")
		case iRaw:
			b.WriteString(x.S)
		case iHard:
			switch p.ch.pick("hard-break", 3) {
			case 0:
				b.WriteString("  \n")
			case 1:
				b.WriteString("\\\n")
			case 2:
				b.WriteString("    \n")
			}
			b.WriteString(p.contIndent())
		case iSoft:
			if p.ch.pick("soft-break-trailing-space", 2) == 1 {
				b.WriteString(" ")
			}
			b.WriteString("\n")
			b.WriteString(p.contIndent())
		}
	}
	return b.String()
}

// inlinesAlt prints kids, forcing a first/last nested emphasis to use the character other than outer.
func (p *mdPrinter) inlinesAlt(kids []Inl, outer string) string {
	if len(kids) > 0 && (kids[0].K == iEm || kids[0].K == iStrong || kids[len(kids)-1].K == iEm || kids[len(kids)-1].K == iStrong) {
		// print with the inner delimiter fixed to the other character
		other := "_"
		if outer == "_" {
			other = "*"
		}
		var b strings.Builder
		for i, x := range kids {
			if i > 0 {
				b.WriteByte(' ')
			}
			if x.K == iEm || x.K == iStrong {
				d := other
				if x.K == iStrong {
					d += d
				}
				b.WriteString(d + p.inlines(x.Kids) + d)
			} else {
				b.WriteString(p.inlines([]Inl{x}))
			}
		}
		return b.String()
	}
	return p.inlines(kids)
}

func (p *mdPrinter) contIndent() string {
	return []string{"", " ", "   ", "      "}[p.ch.pick("continuation-indent", 4)]
}

func spaces(n int) string { return strings.Repeat(" ", n) }

// leadIndent is the choice of 0–3 columns of extra indentation in front of a block.
func (p *mdPrinter) leadIndent(allowed bool) string {
	if !allowed {
		return ""
	}
	return spaces(p.ch.pick("block-indent", 4))
}

type blkCtx struct {
	avoidBullet      string // bullet characters that would merge with / be mistaken for a neighbour
	prevList         bool   // previous sibling is a list
	prevPara         bool
	firstInItem      bool
	lastInDoc        bool
	itemBullet       string // bullet of the enclosing list item when this is its first block
	noDefsFollow     bool
	noBlankAfterPara bool // directly follows a paragraph with no blank line in between
	prevCode         bool
}

func (p *mdPrinter) block(b Blk, cx blkCtx) []pline {
	indentOK := !cx.prevList && !cx.firstInItem
	switch b.K {
	case bPara:
		ind := p.leadIndent(indentOK)
		var out []pline
		for i, l := range strings.Split(p.inlines(b.Inl), "\n") {
			if i == 0 {
				out = append(out, pline{ind + l, false})
			} else {
				out = append(out, pline{l, true})
			}
		}
		return out
	case bHeading:
		setext := b.Level <= 2 && (hasBreak(b.Inl) || p.ch.pick("heading-form", 2) == 1)
		ind := p.leadIndent(indentOK)
		text := p.inlines(b.Inl)
		if !setext {
			closer := []string{"", " #", " " + strings.Repeat("#", b.Level+2), "   ", " " + strings.Repeat("#", b.Level) + "  "}[p.ch.pick("atx-closer", 5)]
			sp := []string{" ", "   "}[p.ch.pick("atx-space", 2)]
			return []pline{{ind + strings.Repeat("#", b.Level) + sp + text + closer, false}}
		}
		var out []pline
		for i, l := range strings.Split(text, "\n") {
			if i == 0 {
				out = append(out, pline{ind + l, false})
			} else {
				out = append(out, pline{l, false})
			}
		}
		c := "="
		if b.Level == 2 {
			c = "-"
		}
		ul := []string{strings.Repeat(c, 3), strings.Repeat(c, 9), strings.Repeat(c, 2), "  " + strings.Repeat(c, 4) + "  "}[p.ch.pick("setext-underline", 4)]
		return append(out, pline{ul, false})
	case bThematic:
		opts := []string{"***", "---", "___", "* * *", "-  -  -", "_____", "**  * ** * ** * **"}
		var ok []string
		for _, o := range opts {
			if cx.prevPara && strings.HasPrefix(strings.TrimSpace(o), "-") {
				continue // would be a Setext underline after a paragraph without blank line; excluded for safety everywhere
			}
			if cx.firstInItem && cx.itemBullet != "" && strings.HasPrefix(strings.TrimSpace(o), cx.itemBullet) {
				continue // "- - - -" would itself be a thematic break instead of an item holding one
			}
			if cx.firstInItem {
				o = strings.TrimLeft(o, " ") // leading spaces would move the item's content column
			}
			ok = append(ok, o)
		}
		return []pline{{p.leadIndent(indentOK) + ok[p.ch.pick("thematic", len(ok))], false}}
	case bCode:
		lines := strings.Split(b.Text, "\n")
		if b.Text == "\x00" {
			lines = nil
		}
		indentedOK := b.Info == "" && !cx.prevList && !cx.prevPara && !cx.prevCode && !cx.firstInItem && len(lines) > 0 && strings.TrimSpace(lines[0]) != "" && strings.TrimSpace(lines[len(lines)-1]) != ""
		n := 6
		if indentedOK {
			n = 8
		}
		c := p.ch.pick("code-form", n)
		if c >= 6 {
			var out []pline
			for _, l := range lines {
				pre := "    "
				if c == 7 && p.tabOK() {
					pre = "\t"
				}
				if l == "" {
					out = append(out, pline{"", false})
				} else {
					out = append(out, pline{pre + l, false})
				}
			}
			return out
		}
		fence := []string{"```", "~~~", "````", "~~~~~", "```", "~~~"}[c]
		closer := fence
		if c == 3 {
			closer = fence + fence[:2]
		}
		ind := ""
		if c == 5 && indentOK {
			ind = spaces(1 + p.ch.pick("fence-indent", 3))
		}
		unclosed := cx.lastInDoc && p.depth == 0 && p.ch.pick("fence-unclosed-at-end", 2) == 1
		info := p.lit(b.Info, "info")
		if info != "" && p.ch.pick("info-space", 2) == 1 {
			info = "  " + info + "  "
		}
		out := []pline{{ind + fence + info, false}}
		for _, l := range lines {
			if l == "" {
				out = append(out, pline{"", false})
			} else {
				out = append(out, pline{ind + l, false})
			}
		}
		if !unclosed {
			out = append(out, pline{ind + closer, false})
		} else {
			p.defs = append(p.defs, refDef{label: "\x00unclosed"})
		}
		return out
	case bQuote:
		ind := p.leadIndent(indentOK)
		qm := p.ch.pick("quote-marker-space", 3)
		tight := qm == 1
		// option 2: a TAB behind the marker, used only where the tab is exactly one column wide (the marker's optional space):
		// the marker sits at an absolute column ≡ 2 (mod 4). Every column is then the same as with "> ".
		tabW := 0
		if qm == 2 && p.col >= 0 && (p.col+len(ind)+1)%4 == 3 {
			tabW = 1
		}
		p.depth++
		saveCol := p.col
		if p.col >= 0 && !tight {
			p.col += len(ind) + 2
		} else {
			p.col = -1
		}
		kids := p.blocks(b.Kids, false, false, "")
		p.col = saveCol
		p.depth--
		var out []pline
		for i, l := range kids {
			if l.cont && i > 0 && p.ch.pick("lazy-continuation", 2) == 1 {
				out = append(out, pline{l.s, true})
				continue
			}
			switch {
			case l.s == "":
				out = append(out, pline{ind + ">", false})
			case tabW > 0:
				out = append(out, pline{ind + ">\t" + l.s, false})
			case tight && l.s[0] != ' ' && l.s[0] != '\t':
				out = append(out, pline{ind + ">" + l.s, false})
			default:
				out = append(out, pline{ind + "> " + l.s, false})
			}
		}
		return out
	case bList:
		bullets := []string{"-", "*", "+"}
		var marks []string
		if b.Ordered {
			for _, d := range []string{".", ")"} {
				if !strings.Contains(cx.avoidBullet, d) {
					marks = append(marks, d)
				}
			}
		} else {
			for _, m := range bullets {
				if !strings.Contains(cx.avoidBullet, m) {
					marks = append(marks, m)
				}
			}
		}
		mark := marks[p.ch.pick("list-marker", len(marks))]
		defer func() { p.lastMark = mark }()
		lind := 0
		if indentOK && !cx.firstInItem {
			lind = p.ch.pick("list-indent", 4)
		}
		var out []pline
		for ii, it := range b.Items {
			m := mark
			if b.Ordered {
				m = fmt.Sprint(b.Start+ii) + mark
			}
			nsp := 1 + p.ch.pick("marker-spaces", 4)
			w := lind + len(m) + nsp
			// content on the line after the marker; an empty list item cannot interrupt a paragraph
			nextLine := it[0].K != bCode && !(ii == 0 && cx.noBlankAfterPara) && p.ch.pick("item-content-on-next-line", 2) == 1
			if nextLine {
				w = lind + len(m) + 1
			}
			p.depth++
			saveCol := p.col
			if p.col >= 0 {
				p.col += w
			}
			saveGap := p.gapLoose
			p.gapLoose = !b.Tight && len(b.Items) >= 2
			kids := p.blocks(it, b.Tight, true, map[bool]string{true: "", false: mark}[b.Ordered])
			p.gapLoose = saveGap
			p.col = saveCol
			p.depth--
			gap := spaces(nsp)
			if p.col >= 0 && nsp > 1 {
				col := p.col + lind + len(m)
				if 4-col%4 == nsp && p.ch.pick("tab-after-marker", 2) == 1 {
					gap = "\t"
				}
			}
			if ii > 0 && !b.Tight {
				out = append(out, pline{"", false})
			}
			if nextLine {
				out = append(out, pline{spaces(lind) + m, false})
			}
			for li, l := range kids {
				switch {
				case li == 0 && !nextLine:
					out = append(out, pline{spaces(lind) + m + gap + l.s, false})
				case l.s == "":
					out = append(out, pline{"", false})
				case l.cont && p.ch.pick("lazy-continuation", 2) == 1:
					out = append(out, pline{l.s, true})
				default:
					pre := spaces(w)
					if p.tabOK() && w >= 4 && p.ch.pick("tab-indent", 2) == 1 {
						pre = "\t" + spaces(w-4)
					}
					out = append(out, pline{pre + l.s, l.cont})
				}
			}
		}
		return out
	case bHTML:
		var out []pline
		for _, l := range strings.Split(b.Raw, "\n") {
			out = append(out, pline{l, false})
		}
		return out
	}
	return nil
}

// blocks prints sibling blocks. In a tight list item no blank line may appear; elsewhere siblings are separated by one
// blank line unless the pair is on the whitelist of constructs that may follow each other directly.
func (p *mdPrinter) blocks(bs []Blk, tight bool, inItem bool, itemBullet string) []pline {
	var out []pline
	for i, b := range bs {
		cx := blkCtx{firstInItem: i == 0 && inItem, itemBullet: itemBullet}
		if i > 0 {
			prev := bs[i-1]
			cx.prevList = prev.K == bList
			cx.prevPara = prev.K == bPara
			cx.prevCode = prev.K == bCode
			if prev.K == bList {
				if prev.Ordered == b.Ordered {
					cx.avoidBullet = p.lastMark
				}
			}
			sep := true
			if tight {
				sep = false
			} else if inItem {
				// a blank line inside a list item may be what makes the list loose: never omitted, except where the list has
				// two or more items (the blank line between the items already makes it loose) and a bullet list or an ordered
				// list starting at 1 directly follows a paragraph (such a list may interrupt a paragraph)
				if p.gapLoose && prev.K == bPara && b.K == bList && (!b.Ordered || b.Start == 1) {
					sep = p.ch.pick("item-blocks-blank-line", 2) == 0
				}
			} else if (prev.K == bHeading && !lastIsSetext(out) || prev.K == bThematic) && (b.K == bPara || b.K == bHeading || b.K == bQuote) ||
				prev.K == bPara && (b.K == bQuote || b.K == bCode && false) {
				sep = p.ch.pick("no-blank-line-between", 2) == 0
			}
			if sep {
				out = append(out, pline{"", false})
			}
			cx.noBlankAfterPara = !sep && prev.K == bPara
		}
		cx.lastInDoc = i == len(bs)-1 && p.depth == 0
		lines := p.block(b, cx)
		out = append(out, lines...)
	}
	return out
}

func lastIsSetext(out []pline) bool {
	if len(out) == 0 {
		return false
	}
	s := strings.TrimSpace(out[len(out)-1].s)
	return s != "" && (strings.Trim(s, "=") == "" || strings.Trim(s, "-") == "")
}

// lastMarker finds the list marker character used by the list that was printed last (first non-space run of its first line).
func lastMarker(out []pline) string {
	for i := len(out) - 1; i >= 0; i-- {
		s := strings.TrimLeft(out[i].s, " ")
		if i == 0 || out[i-1].s == "" || true {
			if len(s) > 1 && strings.ContainsAny(s[:1], "-*+") && (s[1] == ' ' || s[1] == '\t') {
				if len(out[i].s)-len(s) <= 3 {
					return s[:1] + markersBefore(out, i)
				}
			}
			for j := 0; j < len(s) && j < 10; j++ {
				if s[j] >= '0' && s[j] <= '9' {
					continue
				}
				if j > 0 && (s[j] == '.' || s[j] == ')') && len(out[i].s)-len(s) <= 3 {
					return s[j:j+1] + markersBefore(out, i)
				}
				break
			}
		}
	}
	return ""
}

func markersBefore(out []pline, i int) string { return "" }

// PrintMarkdown writes the model document as Markdown under the given choice overrides; it returns the text and the log of
// choice points met (for enumeration of deviations).
func PrintMarkdown(doc []Blk, over map[int]int) (string, []choicePoint) {
	return PrintMarkdownPrefer(doc, over, nil)
}

// PrintMarkdownPrefer is PrintMarkdown with another canonical spelling: prefer gives, per choice name, the option that
// counts as the default.
func PrintMarkdownPrefer(doc []Blk, over map[int]int, prefer map[string]int) (string, []choicePoint) {
	p := &mdPrinter{ch: &chooser{over: over, prefer: prefer}}
	lines := p.blocks(doc, false, false, "")
	unclosed := false
	var defs []refDef
	for _, d := range p.defs {
		if d.label == "\x00unclosed" {
			unclosed = true
		} else {
			defs = append(defs, d)
		}
	}
	var text []string
	for _, l := range lines {
		text = append(text, l.s)
	}
	if len(defs) > 0 {
		var dl []string
		for _, d := range defs {
			l := "[" + d.label + "]: " + p.lit(d.dest, "dest")
			if d.title != "" {
				l += " \"" + p.lit(d.title, "title") + "\""
			}
			dl = append(dl, l)
		}
		where := 0
		if !unclosed {
			where = p.ch.pick("definitions-position", 2)
		} else {
			where = 1
		}
		if where == 0 {
			text = append(append(text, ""), dl...)
		} else {
			text = append(append(dl, ""), text...)
		}
	}
	s := strings.Join(text, "\n")
	nfinal := 3
	if unclosed {
		nfinal = 2 // a further blank line would become content of the unclosed code block
	}
	switch p.ch.pick("final-newline", nfinal) {
	case 0:
		s += "\n"
	case 2:
		s += "\n\n"
	}
	return s, p.ch.log
}
