package props

import (
	"github.com/yuin/goldmark/ast"

	"encoding/json"
	"fmt"
	"os"
	"path/filepath"
	"sort"
	"strings"

	"verif/internal/core"
)

func init() {
	register(&Check{ID: "C03", QuickS: 200, ThorS: 1800, Run: runC03, Replay: replayC03})
}

// sinkCtx is one seam through which a payload reaches an output sink. § marks the payload position(s).
type sinkCtx struct {
	name string
	tmpl string
	exts []string // extension sets in which the context is live
	attr bool     // needs parser.WithAttribute
}

var coreExts = []string{"core", "all+cjk"}

var sinkContexts = []sinkCtx{
	{"para", "§", coreExts, false},
	{"emph", "*§*", coreExts, false},
	{"strong", "__§__", coreExts, false},
	{"link-text", "[§](x)", coreExts, false},
	{"title-dq", "[a](x \"§\")", coreExts, false},
	{"title-sq", "[a](x '§')", coreExts, false},
	{"title-paren", "[a](x (§))", coreExts, false},
	{"dest", "[a](§)", coreExts, false},
	{"dest-angle", "[a](<§>)", coreExts, false},
	{"refdef-title", "[a]\n\n[a]: x \"§\"", coreExts, false},
	{"refdef-dest", "[a]\n\n[a]: §", coreExts, false},
	{"ref-label", "[§]\n\n[§]: x", coreExts, false},
	{"ref-full-label", "[a][§]\n\n[§]: x", coreExts, false},
	{"ref-collapsed-label", "[§][]\n\n[§]: x", coreExts, false},
	{"img-ref-full-label", "![a][§] b\n\n[§]: x", coreExts, false},
	{"ref-full-undefined", "[a][§] b", coreExts, false},
	{"img-alt", "![§](x)", coreExts, false},
	{"img-alt-em", "![*§*](x)", coreExts, false},
	{"img-alt-break", "![a  \n§\\\nb](x)", coreExts, false},
	{"img-alt-code", "![`§`](x)", coreExts, false},
	{"img-alt-link", "![[§](y)](x)", coreExts, false},
	{"img-title", "![a](x \"§\")", coreExts, false},
	{"img-src", "![a](§)", coreExts, false},
	{"codespan", "`§`", coreExts, false},
	{"fence-info", "```§\ncode\n```", coreExts, false},
	{"fence-info-tilde", "~~~ §\ncode\n~~~", coreExts, false},
	{"fence-body", "```\n§\n```", coreExts, false},
	{"indented", "    §", coreExts, false},
	{"atx", "# §", coreExts, false},
	{"setext", "§\n===", coreExts, false},
	{"quote", "> §", coreExts, false},
	{"item", "- §", coreExts, false},
	{"ordered", "1. §", coreExts, false},
	{"autolink", "<http://a/§>", coreExts, false},
	{"autolink-mail", "<a§@b.cd>", coreExts, false},
	{"html-block", "<div §>", coreExts, false},
	{"html-inline", "a <b §>", coreExts, false},
	{"html-comment", "<!-- § -->", coreExts, false},
	{"html-comment-tight", "<!--§-->", coreExts, false},
	{"html-comment-inline", "a <!--§--> b", coreExts, false},
	{"html-pi-inline", "a <?§?> b", coreExts, false},
	{"html-cdata-inline", "a <![CDATA[§]]> b", coreExts, false},
	{"html-decl-inline", "a <!A §> b", coreExts, false},
	{"html-closure-comment", "<!--\nx\n-->§", coreExts, false},
	{"html-closure-script", "<script>\nx\n</script>§", coreExts, false},
	{"html-closure-pi", "<?\nx\n?>§", coreExts, false},
	{"html-closure-decl", "<!A\nx\n>§", coreExts, false},
	{"html-closure-cdata", "<![CDATA[\nx\n]]>§", coreExts, false},
	{"html-closure-pre", "<pre>\nx\n</pre>§", coreExts, false},
	{"attr-id", "# h {#§}", coreExts, true},
	{"attr-class", "# h {.§}", coreExts, true},
	{"attr-kv", "# h {k=§}", coreExts, true},
	{"attr-kv-dq", "# h {k=\"§\"}", coreExts, true},
	{"attr-title-dq", "# h {title=\"§\"}", coreExts, true},
	{"attr-title-sq", "# h {title='§'}", coreExts, true},
	{"attr-data", "# h {data-x=§}", coreExts, true},
	{"attr-name", "# h {§=v}", coreExts, true},
	{"attr-data-name", "# h {data-§=v}", coreExts, true},
	{"attr-setext", "h {#§}\n===", coreExts, true},
	{"attr-multi", "# h {#i .c §}", coreExts, true},
	{"attr-array", "# h {data-x=[§]}", coreExts, true},
	{"attr-array-dq", "# h {data-x=[\"§\"]}", coreExts, true},
	{"attr-array-2", "# h {title=[1,\"§\",'§']}", coreExts, true},
	{"attr-number", "# h {data-x=1§}", coreExts, true},
	{"table-head", "|§|\n|-|\n|a|", []string{"table", "gfm", "all+cjk"}, false},
	{"table-cell", "|a|\n|:-|\n|§|", []string{"table", "gfm", "all+cjk"}, false},
	{"table-cell-code-pipe", "|a|\n|-|\n|`§\\|`|", []string{"table", "gfm", "all+cjk"}, false},
	{"table-cell-code-pipe-2", "|a|\n|:-|\n|`x\\|§` `\\|`|", []string{"table", "gfm", "all+cjk"}, false},
	{"table-cell-alt-code-pipe", "|a|\n|-|\n|![`§\\|`](u)|", []string{"table", "gfm", "all+cjk"}, false},
	{"task", "- [ ] §", []string{"tasklist", "all+cjk"}, false},
	{"strike", "~~§~~", []string{"strike", "all+cjk"}, false},
	{"def-term", "§\n: d", []string{"deflist", "all+cjk"}, false},
	{"def-desc", "t\n: §", []string{"deflist", "all+cjk"}, false},
	{"fn-body", "[^1]\n\n[^1]: §", []string{"footnote", "all+cjk"}, false},
	{"fn-label", "[^§]\n\n[^§]: x", []string{"footnote", "all+cjk"}, false},
	{"linkify-url", "http://a.bc/§", []string{"linkify", "all+cjk"}, false},
	{"linkify-www", "www.a.bc/§ ", []string{"linkify", "all+cjk"}, false},
	{"linkify-mail", "a§@b.cd", []string{"linkify", "all+cjk"}, false},
	{"typo-sq", "'§'", []string{"typographer", "all+cjk"}, false},
	{"typo-dq", "\"§\"", []string{"typographer", "all+cjk"}, false},
}

func (c sinkCtx) cfgs(thorough bool) []core.Cfg {
	var out []core.Cfg
	for _, e := range c.exts {
		for _, po := range [][2]bool{{false, false}, {true, true}, {true, false}, {false, true}} {
			attr, autoid := po[0], po[1]
			if c.attr && !attr {
				continue
			}
			if !thorough && attr != autoid && !c.attr {
				continue
			}
			for _, x := range []bool{false, true} {
				for _, hw := range []bool{false, true} {
					if hw && !thorough {
						continue
					}
					out = append(out, core.Cfg{Ext: e, Attr: attr, AutoID: autoid, XHTML: x, HardWraps: hw})
				}
			}
		}
	}
	if len(out) > 0 {
		// the same safe configuration with the switches that are off handed over explicitly as option(name, false)
		x := out[len(out)-1]
		x.XHTML, x.HardWraps, x.Explicit = false, false, true
		out = append(out, x)
	}
	return out
}

func c03Case(s *core.Sub, cv *core.Conv, doc []byte, ctx string) []byte {
	out, err, pan := cv.Convert(doc)
	if pan != nil || err != nil {
		s.Violate("convert-failed", cv.Cfg.String(), doc, nil, fmt.Sprint(pan, err), "", "")
		return nil
	}
	if sig, detail, _ := safeOracle(out, cv.Cfg.XHTML); sig != "" {
		s.Violate(sig, cv.Cfg.String(), doc, nil, detail+" [context "+ctx+"]", "inert well-nested markup from the fixed vocabulary", string(out))
	}
	return out
}

func runC03(r *core.Run) {
	n := core.Pick(r, 3, 4)
	nw := core.Workers()
	// (1) sink contexts × payloads
	for _, ctx := range sinkContexts {
		cfgs := ctx.cfgs(!r.Quick())
		parts := strings.Split(ctx.tmpl, "§")
		s := r.Sub("sink-"+ctx.name, fmt.Sprintf("template %q with § replaced by every word of ≤%d tokens over A_nasty=%q, under %d safe configurations; strict tokenizer + vocabulary + nesting (+ XML when XHTML); non-trivial = payload changes the output, distinct = (cfg,output) digest", ctx.tmpl, n, core.ANasty, len(cfgs)))
		s.Planned = core.CountWords(len(core.ANasty), n) * int64(len(cfgs))
		s.Bound = fmt.Sprintf("N=%d |A|=%d cfgs=%d", n, len(core.ANasty), len(cfgs))
		_, complete := core.ForEachWord(core.ANasty, n, nw, func(w int) func([]byte) {
			cvs := make([]*core.Conv, len(cfgs))
			for i, c := range cfgs {
				cvs[i] = core.NewConv(c)
			}
			var doc []byte
			var cnt int64
			return func(word []byte) {
				doc = doc[:0]
				for i, p := range parts {
					if i > 0 {
						doc = append(doc, word...)
					}
					doc = append(doc, p...)
				}
				for i, cv := range cvs {
					out := c03Case(s, cv, doc, ctx.name)
					s.Evals.Add(1)
					if i < 2 {
						s.Distinct(core.HashMix(uint64(i), core.Hash(out)))
					}
				}
				cnt++
				if w == 0 {
					s.MaybeSample(cnt, func() any { return core.Q(doc) })
				}
			}
		}, r.Expired)
		if !complete {
			s.Incomplete("internal deadline reached")
		}
		s.States.Store(s.Evals.Load())
		s.Transitions.Store(s.Evals.Load())
		s.Done()
	}
	// (1b) every named character reference of the HTML5 table (and numeric references to the markup-significant characters)
	// in every sink: a reference whose expansion contains < > & " must come out escaped wherever it lands
	refs := c03AllReferences(r)
	for _, ctx := range sinkContexts {
		cfgs := ctx.cfgs(false)
		if len(cfgs) > 2 {
			cfgs = []core.Cfg{cfgs[0], cfgs[len(cfgs)-1]}
		}
		parts := strings.Split(ctx.tmpl, "§")
		s := r.Sub("refs-"+ctx.name, fmt.Sprintf("template %q with § replaced by each of the %d character references (all HTML5 names from the repository's table plus decimal/hex references to \" & ' < > NUL TAB LF and out-of-range values), alone and as a&ref;b, with and without the semicolon, under %d safe configurations; same oracle", ctx.tmpl, len(refs), len(cfgs)))
		s.Planned = int64(len(refs) * 3 * len(cfgs))
		s.Bound = fmt.Sprintf("references=%d forms=3 cfgs=%d", len(refs), len(cfgs))
		core.ForEachIndex(len(refs), nw, func(w int) func(int) {
			cvs := make([]*core.Conv, len(cfgs))
			for i, c := range cfgs {
				cvs[i] = core.NewConv(c)
			}
			var doc []byte
			return func(ri int) {
				for _, payload := range []string{refs[ri], "a" + refs[ri] + "b", strings.TrimSuffix(refs[ri], ";") + " c"} {
					doc = doc[:0]
					for i, p := range parts {
						if i > 0 {
							doc = append(doc, payload...)
						}
						doc = append(doc, p...)
					}
					for i, cv := range cvs {
						out := c03Case(s, cv, doc, ctx.name)
						s.Evals.Add(1)
						if i == 0 {
							s.Distinct(core.Hash(out))
						}
					}
				}
				if ri%(len(refs)/4+1) == 0 {
					s.AddSample(core.Q(doc))
				}
			}
		}, r.Expired)
		s.States.Store(s.Evals.Load())
		s.Transitions.Store(s.Evals.Load())
		s.Done()
	}
	// (2) free words over HTML and nasty tokens to catch sinks not on the list
	alpha := core.Union(core.AHTML, core.ANasty, []string{"[", "]", "(", ")", "!", "`", "{", "}", "#", "|", "-", ":"})
	nn := core.Pick(r, 3, 4)
	for _, cn := range []string{"core", "core+xhtml", "all+cjk+attr+autoid", "all+cjk+attr+autoid+xhtml+hardwraps"} {
		cfg := core.MustCfg(cn)
		s := r.Sub("words-html-nasty/"+cn, fmt.Sprintf("every word of ≤%d tokens over %q under %s; same oracle; non-trivial = output has a tag, distinct = output digest", nn, alpha, cn))
		s.Planned = core.CountWords(len(alpha), nn)
		s.Bound = fmt.Sprintf("N=%d |A|=%d", nn, len(alpha))
		_, complete := core.ForEachWord(alpha, nn, nw, func(w int) func([]byte) {
			cv := core.NewConv(cfg)
			var cnt int64
			return func(word []byte) {
				out := c03Case(s, cv, word, "free")
				s.Evals.Add(1)
				s.Distinct(core.Hash(out))
				cnt++
				if w == 0 {
					s.MaybeSample(cnt, func() any { return core.Q(word) })
				}
			}
		}, r.Expired)
		if !complete {
			s.Incomplete("internal deadline reached")
		}
		s.States.Store(s.Evals.Load())
		s.Transitions.Store(s.Evals.Load())
		s.Done()
	}
	// (3) neighbourhood of the spec examples in safe XHTML mode
	nbhdSub(r, "nbhd-spec/all+attr+autoid+xhtml", core.MustCfg("all+attr+autoid+xhtml"), func(s *core.Sub, cv *core.Conv, w []byte) { c03Case(s, cv, w, "nbhd") })
	{
		// attribute names that collide with an allowed name under the multiply-by-33 string hash family
		var names []string
		for a := range globalAttrs {
			names = append(names, hashTwins(a)...)
		}
		for _, a := range []string{"align", "width", "href", "src", "alt", "start", "type", "checked", "disabled", "colspan", "rowspan"} {
			names = append(names, hashTwins(a)...)
		}
		sort.Strings(names)
		cfg := core.MustCfg("core+attr")
		s := r.Sub("attr-name-hash-twins", fmt.Sprintf("%d attribute names that differ from an allowed attribute name in two adjacent bytes (+d, -33d) and therefore share its multiply-by-33 string hash, as '# h {NAME=x}' and 'h {NAME=x .c}' + Setext underline under %s: none may reach the output", len(names), cfg))
		cv := core.NewConv(cfg)
		for _, n := range names {
			for _, d := range []string{"# h {" + n + "=x}", "h {" + n + "=x .c}\n==="} {
				c03Case(s, cv, []byte(d), "attr-name-hash-twins")
				s.Evals.Add(1)
			}
			s.Distinct(core.Hash([]byte(n)))
		}
		s.AddSample("clatR (twin of class)")
		s.States.Store(int64(len(names)))
		s.Transitions.Store(s.Evals.Load())
		s.Done()
	}
	{
		// attribute names near the vocabulary: the filter must behave as the exact set, not as an approximation of it
		var allowed []string
		for a := range globalAttrs {
			allowed = append(allowed, a)
		}
		sort.Strings(allowed)
		names := attrNameNeighbours(allowed, !r.Quick())
		cfg := core.MustCfg("core+attr")
		s := r.Sub("attr-name-neighbours", fmt.Sprintf("%d attribute names near the heading vocabulary but outside it (all names of ≤3 letters; single substitutions, insertions, deletions, transpositions, rearrangements of the first four bytes, per-position crossovers of the first three bytes, head/tail crossovers of two allowed names%s), as '# h {NAME=x}' and 'h {NAME=x .c}' + Setext underline under %s: none may reach the output", len(names), map[bool]string{true: "", false: ", double substitutions"}[r.Quick()], cfg))
		s.Planned = int64(2 * len(names))
		s.Bound = fmt.Sprintf("names=%d templates=2", len(names))
		core.ForEachIndex(len(names), nw, func(w int) func(int) {
			cv := core.NewConv(cfg)
			return func(i int) {
				n := names[i]
				for _, d := range []string{"# h {" + n + "=x}", "h {" + n + "=x .c}\n==="} {
					c03Case(s, cv, []byte(d), "attr-name-neighbours")
					s.Evals.Add(1)
				}
				s.Distinct(core.Hash([]byte(n)))
				if i%(len(names)/6+1) == 0 {
					s.AddSample("# h {" + n + "=x}")
				}
			}
		}, r.Expired)
		s.States.Store(int64(len(names)))
		s.Transitions.Store(s.Evals.Load())
		s.Done()
	}
	{
		// the Typographer with each substitution switched off (nil), emptied or replaced: what it leaves in place of the
		// punctuation must be as inert as ordinary text
		toks := []string{"a", " ", "'", "\"", "-", "--", "...", ".", "<<", ">>", "<", ">", "&", "\n", "<b x=y>"}
		tn := core.Pick(r, 4, 5)
		for _, v := range core.TypographerVariants() {
			cfg := core.MustCfg("x:" + v)
			wordsSub(r, "typographer-substitutions/"+v, "the Typographer built with WithTypographicSubstitutions where one punctuation (or all) maps to nil / an empty value / a custom reference: same oracle; distinct = output digest",
				toks, tn, func(s *core.Sub, w int) func([]byte) uint64 {
					cv := core.NewConv(cfg)
					return func(word []byte) uint64 {
						out := c03Case(s, cv, word, "typographer-substitutions")
						s.Evals.Add(1)
						return core.Hash(out)
					}
				})
		}
	}
	for _, cn := range []string{"all+cjk+attr+autoid", "all+attr+autoid+xhtml"} {
		cfg := core.MustCfg(cn)
		sharedContextSub(r, "shared-context/"+cn, "every output satisfies the same oracle", cfg, c12StructuredDocs(r.Quick()),
			func(s *core.Sub, cfg core.Cfg, d, out []byte, tree ast.Node, hist []string) {
				if sig, detail, _ := safeOracle(out, cfg.XHTML); sig != "" {
					s.Violate(sig+"|shared-context", cfg.String(), d, hist, detail, "inert well-nested markup from the fixed vocabulary", string(out))
				}
			})
	}
	// the XHTML / HardWraps switches handed over through every other channel the API offers (node renderer constructor,
	// late AddOptions, split calls, one call per option): the XML clause must hold however XHTML was switched on
	for _, via := range []int{1, 2, 3, 7} {
		cn := fmt.Sprintf("all+attr+autoid+xhtml+hardwraps+via=%d", via)
		if via == 1 {
			// options given to html.NewRenderer configure that node renderer only, not the extensions' renderers
			cn = "core+attr+autoid+xhtml+hardwraps+via=1"
		}
		corpusSub(r, "option-channels/"+cn, core.MustCfg(cn), nil, func(s *core.Sub, cv *core.Conv, w []byte) { c03Case(s, cv, w, "option-channels") })
	}
	// attributes that cannot be written in Markdown, set on every node by an AST transformer: every element's attribute
	// rendering, under HTML5 and XHTML
	for _, cn := range []string{"all+attrall", "all+attr+autoid+attrall+xhtml"} {
		corpusSub(r, "attributes-on-every-node/"+cn, core.MustCfg(cn), nil, func(s *core.Sub, cv *core.Conv, w []byte) { c03Case(s, cv, w, "attributes-on-every-node") })
	}
	// long payloads of every length in every sink (buffers, chunked escaping, multi-byte sequences at chunk borders)
	lengthSub(r, "lengths/all+attr+autoid+xhtml", core.MustCfg("all+attr+autoid+xhtml"), core.Pick(r, 600, 2200), func(s *core.Sub, cv *core.Conv, w []byte) { c03Case(s, cv, w, "lengths") })
	// every byte value in every sink
	{
		var docs [][]byte
		for _, ctx := range sinkContexts {
			for b := 0; b < 256; b++ {
				c := string([]byte{byte(b)})
				for _, pay := range []string{c, "a" + c + "b", c + c, c + "\"", "&" + c, c + ";"} {
					docs = append(docs, []byte(strings.ReplaceAll(ctx.tmpl, "§", pay)))
				}
			}
		}
		for _, cn := range []string{"all+cjk+attr+autoid", "all+attr+autoid+xhtml+explicit"} {
			docsSub(r, "byte-sweep/"+cn, fmt.Sprintf("each of %d sink templates with § replaced by every byte value 0..255 alone, between letters, doubled, before a quote, behind an ampersand and before a semicolon, under %s: same oracle", len(sinkContexts), cn),
				core.MustCfg(cn), docs, func(s *core.Sub, cv *core.Conv, w []byte) { c03Case(s, cv, w, "byte-sweep") })
		}
	}
	// every ASCII byte inside, before and behind an attribute name and value
	{
		var docs [][]byte
		for b := 0; b < 128; b++ {
			c := string(rune(b))
			for _, t := range []string{"# h {data-a§b=v}", "# h {a§b=v}", "# h {§=v}", "# h {k=v§}", "# h {k=\"v§\"}", "h {.c§d}\n===", "# h {#i§j}", "# h {data-§}", "# h {k§}"} {
				docs = append(docs, []byte(strings.ReplaceAll(t, "§", c)), []byte(strings.ReplaceAll(t, "§", c+c)))
			}
		}
		for _, cn := range []string{"core+attr", "all+attr+autoid+xhtml"} {
			docsSub(r, "attribute-bytes/"+cn, "every ASCII byte (alone and doubled) inside an attribute name, a data-* name, a bare name, a class, an id, an unquoted and a quoted value of a heading attribute block, under "+cn+": same oracle (attribute names from the fixed vocabulary or data-*, well-formed tags)",
				core.MustCfg(cn), docs, func(s *core.Sub, cv *core.Conv, w []byte) { c03Case(s, cv, w, "attribute-bytes") })
		}
	}
	for _, cn := range []string{"core+attr", "all+attr+autoid+xhtml"} {
		attrEntrySub(r, "attribute-entries/"+cn, core.MustCfg(cn), 3, func(s *core.Sub, cv *core.Conv, w []byte) { c03Case(s, cv, w, "attribute-entries") })
		attrSub(r, "attributes/"+cn, core.MustCfg(cn), core.Pick(r, 4, 5), func(s *core.Sub, cv *core.Conv, w []byte) { c03Case(s, cv, w, "attributes") })
	}
	for _, cn := range []string{"core", "all+attr+autoid+xhtml"} {
		nestSub(r, "nesting/"+cn, core.MustCfg(cn), core.Pick(r, 3, 4), func(s *core.Sub, cv *core.Conv, w []byte) { c03Case(s, cv, w, "nesting") })
	}
}

func replayC03(r *core.Run, v *core.Violation) {
	cfg, err := core.ParseCfg(v.Cfg)
	if err != nil {
		fmt.Println(err)
		return
	}
	s := r.Sub(v.Sub, "replay of one input")
	c03Case(s, core.NewConv(cfg), v.Input(), "replay")
	s.Evals.Add(1)
	s.Done()
}

// c03AllReferences lists every named reference of the repository's HTML5 table plus numeric references to the characters
// that matter to markup.
func c03AllReferences(r *core.Run) []string {
	var out []string
	var tbl struct {
		Data []struct{ Name string } `json:"data"`
	}
	if b, err := os.ReadFile(filepath.Join(r.Repo, "_tools", "html5entities.json")); err == nil && json.Unmarshal(b, &tbl) == nil {
		for _, d := range tbl.Data {
			out = append(out, "&"+d.Name+";")
		}
	}
	if len(out) == 0 {
		for _, n := range []string{"lt", "gt", "amp", "quot", "apos", "LT", "GT", "AMP", "QUOT", "nvlt", "nvgt", "nbsp", "Tab", "NewLine", "bne", "nvap"} {
			out = append(out, "&"+n+";")
		}
	}
	for _, c := range []int{0, 9, 10, 13, 34, 38, 39, 60, 62, 96, 127, 128, 0xD800, 0xFFFE, 0x110000} {
		out = append(out, fmt.Sprintf("&#%d;", c), fmt.Sprintf("&#x%x;", c), fmt.Sprintf("&#X%X;", c), fmt.Sprintf("&#%07d;", c))
	}
	return out
}
