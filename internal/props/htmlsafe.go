package props

import (
	"strings"

	"verif/internal/strict"
)

var safeTags = map[string]bool{}
var globalAttrs = map[string]bool{}
var elemAttrs = map[string]map[string]bool{}

func init() {
	for _, t := range strings.Fields("p h1 h2 h3 h4 h5 h6 blockquote ul ol li pre code hr br em strong a img del table thead tbody tr th td input dl dt dd sup div") {
		safeTags[t] = true
	}
	for _, a := range strings.Split("accesskey,autocapitalize,autofocus,class,contenteditable,dir,draggable,enterkeyhint,hidden,id,inert,inputmode,is,itemid,itemprop,itemref,itemscope,itemtype,lang,part,role,slot,spellcheck,style,tabindex,title,translate", ",") {
		globalAttrs[a] = true
	}
	per := map[string]string{
		"blockquote": "cite",
		"ul":         "start,reversed,type",
		"ol":         "start,reversed,type",
		"li":         "value",
		"hr":         "align,color,noshade,size,width",
		"a":          "href,download,hreflang,media,ping,referrerpolicy,rel,shape,target",
		"img":        "src,alt,align,border,crossorigin,decoding,height,importance,intrinsicsize,ismap,loading,referrerpolicy,sizes,srcset,usemap,width",
		"table":      "align,bgcolor,border,cellpadding,cellspacing,frame,rules,summary,width",
		"thead":      "align,bgcolor,char,charoff,valign",
		"tr":         "align,bgcolor,char,charoff,valign",
		"th":         "abbr,align,axis,bgcolor,char,charoff,colspan,headers,height,rowspan,scope,valign,width",
		"td":         "abbr,align,axis,bgcolor,char,charoff,colspan,headers,height,rowspan,scope,valign,width",
		"input":      "checked,disabled,type",
	}
	for e, l := range per {
		m := map[string]bool{}
		for _, a := range strings.Split(l, ",") {
			m[a] = true
		}
		elemAttrs[e] = m
	}
}

// safeOracle applies the C03 clauses to one safe-mode output. It returns "" when the output is accepted.
func safeOracle(out []byte, xhtml bool) (sig, detail string, toks []strict.Token) {
	toks, err := strict.Tokenize(out)
	if err != nil {
		return "lex:" + err.Code, err.Error(), toks
	}
	for i := range toks {
		t := &toks[i]
		switch t.Kind {
		case strict.Comment:
			if t.Text != " raw HTML omitted " {
				return "foreign-comment", "comment <!--" + t.Text + "-->", toks
			}
		case strict.Start, strict.End:
			if !safeTags[t.Name] {
				return "foreign-tag:" + t.Name, "tag <" + t.Name + "> is not in the renderer's vocabulary", toks
			}
			for _, a := range t.Attrs {
				if globalAttrs[a.Name] || elemAttrs[t.Name][a.Name] || strings.HasPrefix(a.Name, "data-") {
					continue
				}
				return "foreign-attr:" + t.Name + "@" + a.Name, "attribute " + a.Name + " on <" + t.Name + "> is outside the allow-list", toks
			}
			if t.Kind == strict.Start && strict.Void[t.Name] && t.SelfClose != xhtml {
				// void syntax must follow the XHTML switch (checked more thoroughly by C10)
				return "void-syntax:" + t.Name, "void element syntax does not match the XHTML option", toks
			}
		}
	}
	if e := strict.CheckNesting(toks); e != nil {
		return "nest:" + e.Code, e.Error(), toks
	}
	if xhtml && strict.XMLRepresentable(out) {
		ok := true
		for i := range toks {
			for _, a := range toks[i].Attrs {
				if strings.HasPrefix(a.Name, ":") || strings.HasSuffix(a.Name, ":") || strings.Count(a.Name, ":") > 1 {
					ok = false // encoding/xml's namespace handling is stricter than XML 1.0 names; do not judge these
				}
			}
		}
		if ok {
			if err := strict.CheckXML(out); err != nil {
				return "xml-illformed", err.Error(), toks
			}
		}
	}
	return "", "", toks
}
