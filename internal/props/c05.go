package props

import (
	"fmt"
	"strings"

	"github.com/yuin/goldmark/ast"

	"verif/internal/astcheck"
	"verif/internal/core"
)

func init() {
	register(&Check{ID: "C05", QuickS: 150, ThorS: 1500, Run: runC05, Replay: replayC05})
}

func c05Case(s *core.Sub, cv *core.Conv, word []byte) {
	doc, pan := cv.Parse(word)
	if pan != nil {
		s.Violate("panic-in-parse", cv.Cfg.String(), word, nil, fmt.Sprint(pan), "", "")
		return
	}
	for _, p := range astcheck.Check(doc, word) {
		s.Violate(p.Sig, cv.Cfg.String(), word, nil, p.Detail, "well-formed tree", p.Sig)
	}
}

type alphaSpec struct {
	name string
	toks []string
	nq   int
	nt   int
	cfgs []string
}

func runC05(r *core.Run) {
	for _, cn := range []string{"all+attr+autoid", "gfm"} {
		sharedContextSub(r, "shared-context/"+cn, "every tree satisfies the same per-node invariants", core.MustCfg(cn), c12StructuredDocs(r.Quick()),
			func(s *core.Sub, cfg core.Cfg, d, out []byte, tree ast.Node, hist []string) {
				for _, p := range astcheck.Check(tree, d) {
					s.Violate(p.Sig+"|shared-context", cfg.String(), d, hist, p.Detail, "well-formed tree", p.Sig)
				}
			})
	}
	specs := []alphaSpec{
		{"block", core.ABlock, 5, 6, []string{"core", "all+attr+autoid"}},
		{"inline", core.AInline, 4, 5, []string{"core", "all+attr+autoid"}},
		{"ext", core.AExt, 4, 6, []string{"gfm", "footnote", "deflist", "all", "all+attr+autoid"}},
		{"bytes", core.ABytes, 4, 5, []string{"core", "all+cjk"}},
		{"html", core.AHTML, 4, 5, []string{"core"}},
		{"tab", core.ATab, 5, 6, []string{"core", "all+attr+autoid"}},
	}
	for _, sp := range specs {
		n := core.Pick(r, sp.nq, sp.nt)
		for _, cn := range sp.cfgs {
			cfg := core.MustCfg(cn)
			s := r.Sub(fmt.Sprintf("words-%s/%s", sp.name, cn),
				fmt.Sprintf("every word of ≤%d tokens over A_%s=%q parsed under %s; every node of the tree validated; non-trivial = tree has ≥3 node kinds, distinct = AST dump digest", n, sp.name, sp.toks, cn))
			s.Planned = core.CountWords(len(sp.toks), n)
			s.Bound = fmt.Sprintf("N=%d |A|=%d", n, len(sp.toks))
			_, complete := core.ForEachWord(sp.toks, n, core.Workers(), func(w int) func([]byte) {
				cv := core.NewConv(cfg)
				var cnt int64
				return func(word []byte) {
					c05Case(s, cv, word)
					s.Evals.Add(1)
					cnt++
					if w == 0 {
						s.MaybeSample(cnt, func() any { return core.Q(word) })
					}
					noteTree(s, cv, word)
				}
			}, r.Expired)
			if !complete {
				s.Incomplete("internal deadline reached before all shards ran")
			}
			s.States.Store(s.Evals.Load())
			s.Transitions.Store(s.Evals.Load())
			s.Done()
		}
	}
	nbhdSub(r, "nbhd-spec/all+attr+autoid", core.MustCfg("all+attr+autoid"), func(s *core.Sub, cv *core.Conv, w []byte) { c05Case(s, cv, w) })
	for _, cn := range []string{"gfm", "all+attr+autoid"} {
		docsSub(r, "tables/"+cn, fmt.Sprintf("two-column tables with every ordered pair of cell contents from %q, every alignment and placement, under %s: every node of the tree validated (the table transformers split and re-link text nodes)", c17Contents, cn),
			core.MustCfg(cn), TableDocs(), func(s *core.Sub, cv *core.Conv, w []byte) { c05Case(s, cv, w) })
	}
	// footnote documents built from the C16 menu (references and definitions of three labels in every position): the
	// footnote transformer re-orders and removes nodes, which is where tree links can go stale
	{
		menu := c16Menu()
		idx := make([]string, len(menu))
		for i := range idx {
			idx[i] = string([]byte{byte(i)})
		}
		for _, cn := range []string{"footnote", "all+attr+autoid"} {
			cfg := core.MustCfg(cn)
			wordsSub(r, "footnote-sequences/"+cn, fmt.Sprintf("every sequence of ≤%d items from the %d-item footnote menu of C16 joined by blank lines, parsed under %s; every node validated", core.Pick(r, 3, 4), len(menu), cn),
				idx, core.Pick(r, 3, 4), func(s *core.Sub, w int) func([]byte) uint64 {
					cv := core.NewConv(cfg)
					var b strings.Builder
					return func(word []byte) uint64 {
						b.Reset()
						for i, c := range word {
							if i > 0 {
								b.WriteString("\n\n")
							}
							b.WriteString(menu[c].md)
						}
						doc := []byte(b.String())
						c05Case(s, cv, doc)
						s.Evals.Add(1)
						return core.Hash(doc)
					}
				})
		}
	}
	lengthSub(r, "lengths/all+attr+autoid", core.MustCfg("all+attr+autoid"), core.Pick(r, 1100, 2200), func(s *core.Sub, cv *core.Conv, w []byte) { c05Case(s, cv, w) })
	docsSub(r, "wide/all+attr+autoid", "documents in which one node has N children (N top-level paragraphs, list items, emphasis nodes, lines, quoted paragraphs, table rows, descriptions, ordered items) for N = 2^k-1, 2^k, 2^k+1, k = 8.."+fmt.Sprint(core.Pick(r, 16, 18))+": same oracle", core.MustCfg("all+attr+autoid"), WideDocs(core.Pick(r, 16, 18)), func(s *core.Sub, cv *core.Conv, w []byte) { c05Case(s, cv, w) })
	replSub(r, "replication/all+attr+autoid", core.MustCfg("all+attr+autoid"), core.Pick(r, 150, 300), func(s *core.Sub, cv *core.Conv, w []byte) { c05Case(s, cv, w) })
	attrEntrySub(r, "attribute-entries/all+attr+autoid", core.MustCfg("all+attr+autoid"), 3, func(s *core.Sub, cv *core.Conv, w []byte) { c05Case(s, cv, w) })
	attrSub(r, "attributes/all+attr+autoid", core.MustCfg("all+attr+autoid"), core.Pick(r, 4, 5), func(s *core.Sub, cv *core.Conv, w []byte) { c05Case(s, cv, w) })
	for _, cn := range []string{"core", "all+attr+autoid"} {
		nestSub(r, "nesting/"+cn, core.MustCfg(cn), core.Pick(r, 3, 4), func(s *core.Sub, cv *core.Conv, w []byte) { c05Case(s, cv, w) })
		corpusSub(r, "structured-corpus/"+cn, core.MustCfg(cn), nil, func(s *core.Sub, cv *core.Conv, w []byte) { c05Case(s, cv, w) })
	}
}

// noteTree records the digest of the parsed tree shape when it is non-trivial (≥3 node kinds).
func noteTree(s *core.Sub, cv *core.Conv, word []byte) {
	doc, pan := cv.Parse(word)
	if pan != nil || doc == nil {
		return
	}
	h, kinds := treeDigest(doc)
	if kinds >= 3 {
		s.Distinct(h)
	}
}

func replayC05(r *core.Run, v *core.Violation) {
	cfg, err := core.ParseCfg(v.Cfg)
	if err != nil {
		fmt.Println(err)
		return
	}
	s := r.Sub(v.Sub, "replay of "+strings.TrimSpace(v.InputQ))
	cv := core.NewConv(cfg)
	c05Case(s, cv, v.Input())
	s.Evals.Add(1)
	s.Done()
}
