// Package props holds one file per property: enumerated space, oracle and bounds.
package props

import (
	"time"

	"verif/internal/core"
)

// Check is one registered property check.
type Check struct {
	ID      string
	Level   string
	QuickS  int // soft budget in seconds
	ThorS   int
	Run     func(r *core.Run)
	Replay  func(r *core.Run, v *core.Violation)
	Workers func(args []string) int // optional hidden sub-commands (worker subprocesses)
}

// Registry maps property id to its check.
var Registry = map[string]*Check{}

func register(c *Check) { Registry[c.ID] = c }

// Budget returns the soft deadline for the tier.
func (c *Check) Budget(tier string) time.Duration {
	q, t := c.QuickS, c.ThorS
	if q == 0 {
		q = 240
	}
	if t == 0 {
		t = 3000
	}
	if tier == "thorough" {
		return time.Duration(t) * time.Second
	}
	return time.Duration(q) * time.Second
}
