package props

import (
	"bufio"
	"bytes"
	"fmt"
	"github.com/yuin/goldmark/ast"
	"os"
	"os/exec"
	"runtime"
	"runtime/debug"
	"strconv"
	"strings"
	"sync"
	"time"

	"verif/internal/core"
)

func init() {
	register(&Check{ID: "C01", QuickS: 200, ThorS: 2400, Run: runC01, Replay: replayC01, Workers: c01Worker})
}

// c01Case: Convert returns nil error without panic; Parse+Render on the same instance gives nil and the same bytes.
// c01Guard watches every conversion made through c01Case, whichever sub-check it belongs to: a goroutine cannot be
// killed, so a conversion that is still running after the limit is reported (with its input) and the run ends there.
type c01Slot struct {
	mu    sync.Mutex
	busy  bool
	since time.Time
	input []byte
	sub   *core.Sub
	cfg   string
}

var (
	c01Slots     sync.Map // *core.Conv -> *c01Slot (one converter per worker)
	c01GuardOnce sync.Once
)

func c01StartGuard(r *core.Run, limit time.Duration) {
	c01GuardOnce.Do(func() {
		go func() {
			for {
				time.Sleep(500 * time.Millisecond)
				now := time.Now()
				c01Slots.Range(func(_, v any) bool {
					sl := v.(*c01Slot)
					sl.mu.Lock()
					stuck := sl.busy && now.Sub(sl.since) > limit
					var in []byte
					var sub *core.Sub
					var cfg string
					d := now.Sub(sl.since)
					if stuck {
						in, sub, cfg = append([]byte{}, sl.input...), sl.sub, sl.cfg
					}
					sl.mu.Unlock()
					if stuck {
						sub.Violate("hang", cfg, in, nil, fmt.Sprintf("conversion still running after %s (limit far above the µs–ms a correct run needs)", d.Round(time.Second)), "termination", "no return")
						sub.Incomplete("aborted: a conversion did not terminate")
						os.Exit(r.Finish())
					}
					return true
				})
			}
		}()
	})
}

// c01Busy registers that the worker identified by key is inside a library call on word; the returned function ends it.
func c01Busy(s *core.Sub, key any, cfg string, word []byte) (done func()) {
	var sl *c01Slot
	if v, ok := c01Slots.Load(key); ok {
		sl = v.(*c01Slot)
	} else {
		sl = &c01Slot{cfg: cfg}
		c01Slots.Store(key, sl)
	}
	sl.mu.Lock()
	sl.busy, sl.since, sl.sub = true, time.Now(), s
	sl.input = append(sl.input[:0], word...)
	sl.mu.Unlock()
	return func() {
		sl.mu.Lock()
		sl.busy = false
		sl.mu.Unlock()
	}
}

func c01Case(s *core.Sub, cv *core.Conv, word []byte) (out []byte) {
	defer c01Busy(s, cv, cv.Cfg.String(), word)()
	out, err, pan := cv.Convert(word)
	cfg := cv.Cfg.String()
	if pan != nil {
		s.Violate("panic:"+cv.Site, cfg, word, nil, "Convert panicked: "+fmt.Sprint(pan), "normal return", "panic")
		return nil
	}
	if err != nil {
		s.Violate("error:convert", cfg, word, nil, "Convert returned error: "+err.Error(), "nil error", err.Error())
	}
	doc, pan := cv.Parse(word)
	if pan != nil {
		s.Violate("panic:"+cv.Site, cfg, word, nil, "Parse panicked: "+fmt.Sprint(pan), "normal return", "panic")
		return out
	}
	out2, err, pan := cv.Render(word, doc)
	if pan != nil {
		s.Violate("panic:"+cv.Site, cfg, word, nil, "Render panicked: "+fmt.Sprint(pan), "normal return", "panic")
		return out
	}
	if err != nil {
		s.Violate("error:render", cfg, word, nil, "Render returned error: "+err.Error(), "nil error", err.Error())
	}
	if !bytes.Equal(out, out2) {
		s.Violate("convert!=parse+render", cfg, word, nil, "Convert and Parse+Render disagree", string(out), string(out2))
	}
	return out
}

var c01Union = core.Union(core.ABlock, core.AInline, core.AHTML, core.AExt, core.ABytes, []string{"{", "}", ".", "[^1]", "\"", "'"})

func hangReporter(r *core.Run, s *core.Sub, cfg string) func(int, string, []byte, time.Duration) {
	return func(w int, tag string, input []byte, d time.Duration) {
		c := cfg
		if tag != "" {
			c = tag
		}
		s.Violate("hang", c, input, nil, fmt.Sprintf("conversion still running after %s (limit far above the µs–ms a correct run needs)", d.Round(time.Second)), "termination", "no return")
		s.Incomplete("aborted: a conversion did not terminate")
		os.Exit(r.Finish())
	}
}

func runC01(r *core.Run) {
	limit := core.Pick(r, 40*time.Second, 180*time.Second)
	c01StartGuard(r, core.Pick(r, 60*time.Second, 240*time.Second))
	specs := []alphaSpec{
		{"block", core.ABlock, 5, 6, []string{"core", "all+cjk+autoid+attr+unsafe+xhtml", "gfm+hardwraps"}},
		{"inline", core.AInline, 4, 5, []string{"core", "all+cjk+autoid+attr+unsafe+xhtml", "typographer"}},
		{"html", core.AHTML, 4, 5, []string{"core+unsafe", "all+cjk+autoid+attr"}},
		{"ext", core.AExt, 4, 5, []string{"gfm", "all+cjk+autoid+attr+unsafe+xhtml", "footnote+xhtml", "deflist", "linkify"}},
		{"bytes", core.ABytes, 4, 5, []string{"core", "all+cjk+autoid+attr+unsafe+xhtml", "cjk-simple", "cjk-css3+hardwraps", "cjk-esc"}},
		{"tab", core.ATab, 5, 6, []string{"all+cjk+autoid+attr+unsafe+xhtml"}},
	}
	nw := core.Workers()
	for _, sp := range specs {
		n := core.Pick(r, sp.nq, sp.nt)
		for _, cn := range sp.cfgs {
			cfg := core.MustCfg(cn)
			s := r.Sub(fmt.Sprintf("words-%s/%s", sp.name, cn),
				fmt.Sprintf("every word of ≤%d tokens over A_%s=%q under %s: Convert and Parse+Render return nil without panic, same bytes, within the watchdog limit; words of ≤4 tokens also with a final newline and with CRLF line endings; non-trivial = output has ≥2 tags, distinct = output digest", n, sp.name, sp.toks, cn))
			s.Bound = fmt.Sprintf("N=%d |A|=%d watchdog=%s", n, len(sp.toks), limit)
			wd := core.NewWatchdog(nw, limit, hangReporter(r, s, cn))
			maxShort := 0
			for _, t := range sp.toks {
				if len(t) > maxShort {
					maxShort = len(t)
				}
			}
			_, complete := core.ForEachWord(sp.toks, n, nw, func(w int) func([]byte) {
				cv := core.NewConv(cfg)
				var cnt int64
				var tmp []byte
				return func(word []byte) {
					wd.Begin(w, "", word)
					out := c01Case(s, cv, word)
					s.Evals.Add(1)
					s.States.Add(1)
					cnt++
					if w == 0 {
						s.MaybeSample(cnt, func() any { return core.Q(word) })
					}
					if bytes.Count(out, []byte("<")) >= 2 {
						s.Distinct(core.Hash(out))
					}
					if len(word) <= 4*maxShort && tokenCountAtMost(word, sp.toks, 4) {
						tmp = append(append(tmp[:0], word...), '\n')
						wd.Begin(w, "", tmp)
						c01Case(s, cv, tmp)
						s.Evals.Add(1)
						if bytes.IndexByte(word, '\n') >= 0 {
							tmp = append(tmp[:0], bytes.ReplaceAll(word, []byte("\n"), []byte("\r\n"))...)
							wd.Begin(w, "", tmp)
							c01Case(s, cv, tmp)
							s.Evals.Add(1)
						}
					}
					wd.Idle(w)
				}
			}, r.Expired)
			wd.Stop()
			s.Planned = core.CountWords(len(sp.toks), n)
			if !complete {
				s.Incomplete("internal deadline reached before all shards ran")
			}
			s.Transitions.Store(s.Evals.Load())
			s.Done()
		}
	}

	// (b) the full configuration lattice at a short word length over the union alphabet
	{
		n := core.Pick(r, 2, 3)
		lat := core.Lattice()
		s := r.Sub("lattice", fmt.Sprintf("all %d configurations (14 extension sets × AutoHeadingID × Attribute × Unsafe × XHTML × HardWraps) × every word of ≤%d tokens over the %d-token union alphabet; distinct = (cfg,output) digest of outputs with ≥2 tags", len(lat), n, len(c01Union)))
		s.Bound = fmt.Sprintf("N=%d |A|=%d cfgs=%d", n, len(c01Union), len(lat))
		s.Planned = core.CountWords(len(c01Union), n) * int64(len(lat))
		wd := core.NewWatchdog(nw, limit, hangReporter(r, s, ""))
		complete := core.ForEachIndex(len(lat), nw, func(w int) func(int) {
			return func(i int) {
				cv := core.NewConv(lat[i])
				cn := lat[i].String()
				ch := core.Hash([]byte(cn))
				core.ForEachWord(c01Union, n, 1, func(int) func([]byte) {
					return func(word []byte) {
						wd.Begin(w, cn, word)
						out := c01Case(s, cv, word)
						s.Evals.Add(1)
						if bytes.Count(out, []byte("<")) >= 2 {
							s.Distinct(core.HashMix(ch, core.Hash(out)))
						}
					}
				}, nil)
				wd.Idle(w)
				if i%50 == 0 {
					s.AddSample("all words under cfg " + cn)
				}
			}
		}, r.Expired)
		wd.Stop()
		if !complete {
			s.Incomplete("internal deadline reached before all configurations ran")
		}
		s.States.Store(s.Evals.Load())
		s.Transitions.Store(s.Evals.Load())
		s.Done()
	}

	corpusSub(r, "structured-corpus/all+attrall+xhtml", core.MustCfg("all+attrall+xhtml"), nil, func(s *core.Sub, cv *core.Conv, w []byte) { c01Case(s, cv, w) })
	// every Unicode scalar value on both sides of a soft line break and inside emphasis, under the configurations that
	// classify characters (East Asian width and line breaks, punctuation for flanking, case folding for labels)
	for _, cn := range []string{"x:cjk-css3", "all+cjk+autoid+attr"} {
		cfg := core.MustCfg(cn)
		s := r.Sub("rune-sweep/"+cn, "for EVERY Unicode scalar value r (0..0x10FFFF without surrogates): the document 'a r LF r b', blank line, '*r* [r]', blank line, '[R]: /u' under "+cn+": no panic, no error, Parse+Render = Convert")
		s.Planned = 0x110000 - 0x800
		s.Bound = "all 1 112 064 scalar values"
		core.ForEachIndex(0x110000/256, core.Workers(), func(w int) func(int) {
			cv := core.NewConv(cfg)
			var doc []byte
			return func(hi int) {
				for lo := 0; lo < 256; lo++ {
					r := rune(hi<<8 | lo)
					if r >= 0xD800 && r <= 0xDFFF {
						continue
					}
					rs := string(r)
					doc = append(doc[:0], "a"+rs+"\n"+rs+"b\n\n*"+rs+"* ["+rs+"]\n\n["+rs+"]: /u\n"...)
					out, err, pan := cv.Convert(doc)
					if pan != nil {
						s.Violate("panic:"+cv.Site, cfg.String(), doc, nil, fmt.Sprintf("Convert panicked on U+%04X: %v", r, pan), "normal return", "panic")
						cv = core.NewConv(cfg)
					} else if err != nil {
						s.Violate("error:convert", cfg.String(), doc, nil, "Convert returned error: "+err.Error(), "nil error", err.Error())
					}
					s.Evals.Add(1)
					if lo == 0 && hi%512 == 0 {
						s.Distinct(core.Hash(out))
						s.AddSample(core.Q(doc))
					}
				}
			}
		}, r.Expired)
		s.States.Store(s.Evals.Load())
		s.Transitions.Store(s.Evals.Load())
		s.Done()
	}
	// runs of documents sharing one parser.Context (parser.WithContext): no panic, no error
	sharedCtxGuard = c01Busy
	for _, cn := range []string{"all+autoid+attr+unsafe+xhtml", "core"} {
		sharedContextSub(r, "shared-context/"+cn, "no call panics or returns an error", core.MustCfg(cn), c12StructuredDocs(r.Quick()),
			func(s *core.Sub, cfg core.Cfg, d, out []byte, tree ast.Node, hist []string) {})
	}
	sharedCtxGuard = nil
	// (d) edit neighbourhood of the spec examples under the suite's fuzz configuration and a safe CJK one
	for _, cn := range []string{"all+autoid+attr+unsafe+xhtml", "all+cjk"} {
		nbhdSub(r, "nbhd-spec/"+cn, core.MustCfg(cn), func(s *core.Sub, cv *core.Conv, w []byte) { c01Case(s, cv, w) })
		nestSub(r, "nesting/"+cn, core.MustCfg(cn), core.Pick(r, 3, 4), func(s *core.Sub, cv *core.Conv, w []byte) { c01Case(s, cv, w) })
		corpusSub(r, "structured-corpus/"+cn, core.MustCfg(cn), nil, func(s *core.Sub, cv *core.Conv, w []byte) { c01Case(s, cv, w) })
		lengthSub(r, "lengths/"+cn, core.MustCfg(cn), core.Pick(r, 1100, 2200), func(s *core.Sub, cv *core.Conv, w []byte) { c01Case(s, cv, w) })
		docsSub(r, "wide/"+cn, "documents in which one node has N children (N top-level paragraphs, list items, emphasis nodes, lines, quoted paragraphs, table rows, descriptions, ordered items) for N = 2^k-1, 2^k, 2^k+1, k = 8.."+fmt.Sprint(core.Pick(r, 16, 18))+": same oracle", core.MustCfg(cn), WideDocs(core.Pick(r, 16, 18)), func(s *core.Sub, cv *core.Conv, w []byte) { c01Case(s, cv, w) })
		replSub(r, "replication/"+cn, core.MustCfg(cn), core.Pick(r, 150, 300), func(s *core.Sub, cv *core.Conv, w []byte) { c01Case(s, cv, w) })
		if strings.Contains(cn, "attr") {
			attrEntrySub(r, "attribute-entries/"+cn, core.MustCfg(cn), 3, func(s *core.Sub, cv *core.Conv, w []byte) { c01Case(s, cv, w) })
			attrSub(r, "attributes/"+cn, core.MustCfg(cn), core.Pick(r, 4, 5), func(s *core.Sub, cv *core.Conv, w []byte) { c01Case(s, cv, w) })
			attrSub(r, "attributes/core+attr", core.MustCfg("core+attr"), core.Pick(r, 4, 5), func(s *core.Sub, cv *core.Conv, w []byte) { c01Case(s, cv, w) })
		}
	}

	// (c) deep-nesting families in worker subprocesses (a stack overflow or OOM kills the worker, not the check)
	runFamilies(r)
}

func tokenCountAtMost(word []byte, toks []string, k int) bool {
	// cheap upper bound: a word of >k tokens has length > k*minTokenLen; exact count is not needed because
	// running the extra variants on a few more words is harmless.
	return len(word) <= k*8
}

// ---- families

var famShapes = []string{"t^n", "(t\\n)^n", "(tu)^n", "t^n u^n", "t^n a u^n"}

type famCase struct {
	shape int
	t, u  string
	n     int
}

func famCases(toks []string, n int) []famCase {
	var out []famCase
	for _, t := range toks {
		out = append(out, famCase{0, t, "", n}, famCase{1, t, "", n})
	}
	for _, t := range toks {
		for _, u := range toks {
			if t == u {
				continue
			}
			out = append(out, famCase{2, t, u, n}, famCase{3, t, u, n}, famCase{4, t, u, n})
		}
	}
	return out
}

func (f famCase) doc() []byte {
	var b bytes.Buffer
	switch f.shape {
	case 0:
		b.WriteString(strings.Repeat(f.t, f.n))
	case 1:
		b.WriteString(strings.Repeat(f.t+"\n", f.n))
	case 2:
		b.WriteString(strings.Repeat(f.t+f.u, f.n))
	case 3:
		b.WriteString(strings.Repeat(f.t, f.n))
		b.WriteString(strings.Repeat(f.u, f.n))
	case 4:
		b.WriteString(strings.Repeat(f.t, f.n))
		b.WriteString("a")
		b.WriteString(strings.Repeat(f.u, f.n))
	}
	return b.Bytes()
}

func (f famCase) String() string {
	return fmt.Sprintf("%s t=%q u=%q n=%d", famShapes[f.shape], f.t, f.u, f.n)
}

var famAlpha = map[string][]string{
	"small": {"a", " ", "\n", ">", "-", "1.", "#", "`", "*", "_", "[", "]", "(", ")", "<", "\t", "|", "~", "\\", "!", "- ", "> ", "1. ", "\n\n", "    "},
	"union": core.Union(c01Union, []string{"\t", "_", "<a", "<a>", "</a>", "![", "](", "**", "> ", "- ", "1. ", "\n\n", "    "}),
}

func runFamilies(r *core.Run) {
	type job struct {
		alpha string
		n     int
		cfg   string
	}
	jobs := []job{{"union", 64, "all+autoid+attr+unsafe+xhtml"}, {"small", 1024, "all+autoid+attr+unsafe+xhtml"}}
	if !r.Quick() {
		jobs = []job{{"union", 64, "all+autoid+attr+unsafe+xhtml"}, {"union", 64, "all+cjk"}, {"union", 512, "all+autoid+attr+unsafe+xhtml"},
			{"small", 1024, "all+autoid+attr+unsafe+xhtml"}, {"small", 1024, "all+cjk"}, {"small", 4096, "core"}}
	}
	limit := core.Pick(r, 120*time.Second, 600*time.Second)
	exe, _ := os.Executable()
	for _, j := range jobs {
		cases := famCases(famAlpha[j.alpha], j.n)
		s := r.Sub(fmt.Sprintf("families-%s-n%d/%s", j.alpha, j.n, j.cfg),
			fmt.Sprintf("for every token t and ordered pair (t,u), t≠u, of the %d-token %s alphabet and every shape in %v with n=%d: Convert terminates within %s without panic, crash or error (worker subprocesses; a killed worker is attributed to the case it announced); distinct = output digest", len(famAlpha[j.alpha]), j.alpha, famShapes, j.n, limit))
		s.Planned = int64(len(cases))
		s.Bound = fmt.Sprintf("n=%d cases=%d per-case limit=%s", j.n, len(cases), limit)
		nsh := core.Workers()
		var wg sync.WaitGroup
		var slowMu sync.Mutex
		slowest, slowCase := 0.0, ""
		for sh := 0; sh < nsh; sh++ {
			wg.Add(1)
			go func(sh int) {
				defer wg.Done()
				start := sh
				for start < len(cases) {
					if r.Expired() {
						s.Incomplete("internal deadline reached")
						return
					}
					next, fatal := famWorker(exe, j.alpha, j.n, j.cfg, start, nsh, limit, cases, s, func(ms float64, c string) {
						slowMu.Lock()
						if ms > slowest {
							slowest, slowCase = ms, c
						}
						slowMu.Unlock()
					})
					if !fatal {
						return
					}
					start = next
				}
			}(sh)
		}
		wg.Wait()
		s.Extra["slowest_case_ms"] = slowest
		s.Extra["slowest_case"] = slowCase
		s.AddSample(cases[0].String())
		s.AddSample(cases[len(cases)/2].String())
		s.AddSample(cases[len(cases)-1].String())
		s.States.Store(s.Evals.Load())
		s.Transitions.Store(s.Evals.Load())
		s.Done()
	}
}

// famWorker runs one worker subprocess over cases start, start+stride, ... It returns fatal=true and the next index to
// resume from when the worker died or hung on a case (which is then recorded as a violation).
func famWorker(exe, alpha string, n int, cfg string, start, stride int, limit time.Duration, cases []famCase, s *core.Sub, slow func(float64, string)) (next int, fatal bool) {
	cmd := exec.Command(exe, "C01", "--worker", "fam", alpha, strconv.Itoa(n), cfg, strconv.Itoa(start), strconv.Itoa(stride))
	stdout, _ := cmd.StdoutPipe()
	var stderr bytes.Buffer
	cmd.Stderr = &stderr
	if err := cmd.Start(); err != nil {
		s.Incomplete("cannot start worker: " + err.Error())
		return 0, false
	}
	lines := make(chan string, 64)
	go func() {
		sc := bufio.NewScanner(stdout)
		sc.Buffer(make([]byte, 1<<20), 1<<20)
		for sc.Scan() {
			lines <- sc.Text()
		}
		close(lines)
	}()
	cur := -1
	timer := time.NewTimer(limit)
	defer timer.Stop()
	for {
		select {
		case ln, ok := <-lines:
			if !ok {
				err := cmd.Wait()
				core.Progress.Add(1)
				if cur >= 0 {
					c := cases[cur]
					tail := stderr.String()
					if len(tail) > 600 {
						tail = tail[:600]
					}
					s.Violate("crash:"+firstLine(tail), cfg, c.doc(), nil, fmt.Sprintf("worker died (%v) while converting family case %s: %s", err, c, tail), "normal return", "process killed")
					s.Evals.Add(1)
					return cur + stride, true
				}
				if err != nil {
					s.Incomplete("worker exited abnormally outside any case: " + err.Error() + " " + stderr.String())
				}
				return 0, false
			}
			f := strings.SplitN(ln, " ", 4)
			idx, _ := strconv.Atoi(f[1])
			switch f[0] {
			case "B":
				cur = idx
				if !timer.Stop() {
					select {
					case <-timer.C:
					default:
					}
				}
				timer.Reset(limit)
			case "E":
				cur = -1
				s.Evals.Add(1)
				h, _ := strconv.ParseUint(f[2], 16, 64)
				s.Distinct(h)
				ms, _ := strconv.ParseFloat(f[3], 64)
				slow(ms, cases[idx].String())
			case "V":
				s.Violate(f[2], cfg, cases[idx].doc(), nil, "family case "+cases[idx].String()+": "+f[3], "nil error, no panic", f[3])
			}
		case <-timer.C:
			if cur >= 0 {
				c := cases[cur]
				_ = cmd.Process.Kill()
				_ = cmd.Wait()
				s.Violate("hang", cfg, c.doc(), nil, fmt.Sprintf("family case %s still running after %s", c, limit), "termination", "no return")
				s.Evals.Add(1)
				return cur + stride, true
			}
			timer.Reset(limit)
		}
	}
}

func firstLine(s string) string {
	if i := strings.IndexByte(s, '\n'); i >= 0 {
		s = s[:i]
	}
	if len(s) > 80 {
		s = s[:80]
	}
	return s
}

// c01Worker is the subprocess side: vcheck C01 --worker fam <alpha> <n> <cfg> <start> <stride>
func c01Worker(args []string) int {
	if len(args) < 6 || args[0] != "fam" {
		fmt.Println("bad worker args")
		return 2
	}
	n, _ := strconv.Atoi(args[2])
	start, _ := strconv.Atoi(args[4])
	stride, _ := strconv.Atoi(args[5])
	cfg := core.MustCfg(args[3])
	cases := famCases(famAlpha[args[1]], n)
	debug.SetMaxStack(512 << 20)
	go func() { // memory guard: the sandbox has no memory limit
		var ms runtime.MemStats
		for {
			time.Sleep(200 * time.Millisecond)
			runtime.ReadMemStats(&ms)
			if ms.Sys > 6<<30 {
				fmt.Fprintln(os.Stderr, "fatal: memory guard exceeded 6 GiB")
				os.Exit(3)
			}
		}
	}()
	w := bufio.NewWriter(os.Stdout)
	cv := core.NewConv(cfg)
	for i := start; i < len(cases); i += stride {
		fmt.Fprintf(w, "B %d\n", i)
		w.Flush()
		t0 := time.Now()
		out, err, pan := cv.Convert(cases[i].doc())
		if pan != nil {
			fmt.Fprintf(w, "V %d panic:%s %s\n", i, cv.Site, strings.ReplaceAll(fmt.Sprint(pan), "\n", " "))
		} else if err != nil {
			fmt.Fprintf(w, "V %d error:convert %s\n", i, strings.ReplaceAll(err.Error(), "\n", " "))
		}
		fmt.Fprintf(w, "E %d %x %.1f\n", i, core.Hash(out), float64(time.Since(t0).Microseconds())/1000)
		w.Flush()
	}
	return 0
}

func replayC01(r *core.Run, v *core.Violation) {
	cfg, err := core.ParseCfg(v.Cfg)
	if err != nil {
		fmt.Println(err)
		return
	}
	s := r.Sub(v.Sub, "replay of one input")
	wd := core.NewWatchdog(1, 60*time.Second, hangReporter(r, s, v.Cfg))
	wd.Begin(0, "", v.Input())
	c01Case(s, core.NewConv(cfg), v.Input())
	wd.Stop()
	s.Evals.Add(1)
	s.Done()
}
