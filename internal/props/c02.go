package props

import (
	"fmt"
	"os"
	"strings"
	"sync"

	"github.com/yuin/goldmark/ast"

	"verif/internal/core"
)

func init() {
	register(&Check{ID: "C02", QuickS: 300, ThorS: 2700, Run: runC02, Replay: replayC02})
}

var c02Cfg = "core+unsafe+xhtml"

// ---- model vocabulary

func w(s string) Inl                  { return Inl{K: iWord, S: s} }
func esc(c string) Inl                { return Inl{K: iEsc, S: c} }
func code(s string) Inl               { return Inl{K: iCode, S: s} }
func em(k ...Inl) Inl                 { return Inl{K: iEm, Kids: k} }
func strong(k ...Inl) Inl             { return Inl{K: iStrong, Kids: k} }
func link(d, t string, k ...Inl) Inl  { return Inl{K: iLink, Dest: d, Title: t, Kids: k} }
func image(d, t string, k ...Inl) Inl { return Inl{K: iImage, Dest: d, Title: t, Kids: k} }
func para(k ...Inl) Blk               { return Blk{K: bPara, Inl: k} }
func heading(l int, k ...Inl) Blk     { return Blk{K: bHeading, Level: l, Inl: k} }
func codeBlk(info, text string) Blk   { return Blk{K: bCode, Info: info, Text: text} }
func quote(k ...Blk) Blk              { return Blk{K: bQuote, Kids: k} }
func ulist(tight bool, items ...[]Blk) Blk {
	return Blk{K: bList, Tight: tight, Items: items, Start: 1}
}
func olist(start int, tight bool, items ...[]Blk) Blk {
	return Blk{K: bList, Ordered: true, Start: start, Tight: tight, Items: items}
}

var (
	hardBrk = Inl{K: iHard}
	softBrk = Inl{K: iSoft}
)

// simple inline atoms (usable inside emphasis / link text)
func c02Atoms(thorough bool) []Inl {
	a := []Inl{w("a"), w("b"), esc("*"), esc("_"), esc("<"), esc("&"), esc("\""), esc("\\"), esc("["), esc("`"), esc("#"), code("x"), code("a`b")}
	if thorough {
		a = append(a, esc("]"), esc(">"), esc("!"), esc("("), code(" y "), code("*z*"), code("`"))
	}
	return a
}

// inline items that can stand in a paragraph
func c02Items(thorough bool) []Inl {
	atoms := c02Atoms(thorough)
	items := append([]Inl{}, atoms...)
	inner := [][]Inl{{w("a")}, {w("a"), w("b")}, {esc("*")}, {code("x")}, {w("a"), esc("_")}}
	for _, in := range inner {
		items = append(items, em(in...), strong(in...))
		items = append(items, link("/u", "", in...), link("/u", "t", in...), image("/i", "", in...))
	}
	items = append(items,
		em(strong(w("a"))), strong(em(w("a"))), em(w("a"), strong(w("b"))), strong(w("a"), em(w("b"))), em(strong(w("a")), w("b")),
		link("/u\x01*", "t\x01\"", w("a")), link("/u\x01(x", "", w("a")), link("/u", "a\x01&b", em(w("a"))), image("/i\x01_", "t", w("a"), em(w("b"))),
		link("/u", "", em(w("a")), w("b")), link("/u", "", image("/i", "", w("a"))), link("/u\x01\\", "", w("a")),
		link("/u", "", w("a"), softBrk, w("b")), link("/u", "t", w("c"), softBrk, w("d")), image("/i", "", w("a"), softBrk, w("b")), em(w("a"), softBrk, w("b")),
		Inl{K: iAuto, S: "http://a.b/c"}, Inl{K: iAuto, S: "a@b.cd"}, Inl{K: iAuto, S: "http://a.b/?x=1&y=2"},
		Inl{K: iRaw, S: "<b>"}, Inl{K: iRaw, S: "</b>"}, Inl{K: iRaw, S: "<i class=\"x\">"})
	if thorough {
		items = append(items, link("/u\x01 v", "", w("a")), link("/\x01<u\x01>", "t", w("a")), image("/i", "t\x01'", w("a")), link("/u", "", code("x"), w("b")))
	}
	return items
}

func firstLineHazard(seq []Inl) bool {
	// a raw tag alone on the first line would open an HTML block (type 7); any line that starts with a raw tag and
	// ends there is avoided altogether
	for i, x := range seq {
		if x.K == iRaw && (i == 0 || seq[i-1].K == iHard || seq[i-1].K == iSoft) {
			return true
		}
	}
	return false
}

// c02Seqs returns every inline sequence of ≤2 items (and ≤3 with breaks) to be placed in a paragraph.
func c02Seqs(thorough bool) [][]Inl {
	items := c02Items(thorough)
	var out [][]Inl
	for _, a := range items {
		if !firstLineHazard([]Inl{a}) {
			out = append(out, []Inl{a})
		}
	}
	for _, a := range items {
		for _, b := range items {
			if firstLineHazard([]Inl{a, b}) {
				continue
			}
			out = append(out, []Inl{a, b})
		}
	}
	brk := c02Atoms(false)
	brk = append(brk, em(w("a")), link("/u", "t", w("a")), Inl{K: iAuto, S: "http://a.b/c"})
	for _, a := range brk {
		for _, b := range brk {
			out = append(out, []Inl{a, hardBrk, b}, []Inl{a, softBrk, b})
		}
	}
	return out
}

// ---- running one model document

type c02Stats struct {
	variants int64
}

// c02Doc prints doc under every choice vector with ≤d deviations and compares with the reference HTML.
func c02Doc(s *core.Sub, cv *core.Conv, doc []Blk, d int, label string) int64 {
	return c02DocPrefer(s, cv, doc, d, label, nil)
}

func c02DocPrefer(s *core.Sub, cv *core.Conv, doc []Blk, d int, label string, prefer map[string]int) int64 {
	want := RefHTML(doc)
	var n int64
	var rec func(over map[int]int, from, left int)
	rec = func(over map[int]int, from, left int) {
		md, log := PrintMarkdownPrefer(doc, over, prefer)
		n++
		got, ok := mustConvert(s, cv, []byte(md))
		if ok && normHTML(string(got)) != normHTML(want) {
			var dev []string
			for i, v := range over {
				if i < len(log) {
					dev = append(dev, fmt.Sprintf("%s=%d", log[i].Name, v))
				}
			}
			sig := "differs-from-spec"
			if len(dev) == 1 {
				sig += ":" + strings.SplitN(dev[0], "=", 2)[0]
			} else if len(dev) == 0 {
				sig += ":default-spelling"
			}
			s.Violate(sig+":"+c02Kinds(doc), cv.Cfg.String(), []byte(md), nil,
				fmt.Sprintf("model %s; spelling deviations %v; output differs from the HTML the specification prescribes", label, dev), want, string(got))
		}
		if left == 0 {
			return
		}
		for i := from; i < len(log); i++ {
			for v := 1; v < log[i].N; v++ {
				o2 := map[int]int{i: v}
				for k, x := range over {
					o2[k] = x
				}
				rec(o2, i+1, left-1)
			}
		}
	}
	rec(map[int]int{}, 0, d)
	return n
}

func c02Kinds(doc []Blk) string {
	var ks []string
	var rec func(bs []Blk)
	seen := map[string]bool{}
	rec = func(bs []Blk) {
		for _, b := range bs {
			k := []string{"Para", "Heading", "Thematic", "Code", "Quote", "List", "HTML"}[b.K]
			if !seen[k] {
				seen[k] = true
				ks = append(ks, k)
			}
			rec(b.Kids)
			for _, it := range b.Items {
				rec(it)
			}
		}
	}
	rec(doc)
	return strings.Join(ks, ",")
}

// ---- block-structure documents

func c02Leaves(thorough bool) []Blk {
	l := []Blk{
		para(w("a")), para(w("a"), softBrk, w("b")),
		heading(1, w("a")), heading(2, w("a"), w("b")), heading(3, w("a")),
		{K: bThematic},
		codeBlk("", "c"), codeBlk("x", "c"), codeBlk("", "c\n\nd"), codeBlk("", " c"),
		{K: bHTML, Raw: "<div>h</div>"},
	}
	if thorough {
		l = append(l, heading(6, w("a")), heading(2, w("a"), softBrk, w("b")), codeBlk("x\x01&y z", "c"), codeBlk("", "c\n d"), codeBlk("", "\x00"),
			Blk{K: bHTML, Raw: "<div>\nh\n</div>"}, Blk{K: bHTML, Raw: "<!-- c -->"}, para(em(w("a")), hardBrk, w("b")))
	}
	return l
}

func validList(b Blk) bool {
	if b.K != bList {
		return true
	}
	if b.Tight {
		for _, it := range b.Items {
			if len(it) == 0 || it[0].K != bPara {
				return false
			}
			if len(it) == 2 && !(it[1].K == bList) {
				return false
			}
			if len(it) > 2 {
				return false
			}
		}
		return true
	}
	// loose: something must make it loose
	if len(b.Items) >= 2 {
		return true
	}
	for _, it := range b.Items {
		if len(it) >= 2 {
			return true
		}
	}
	return false
}

// c02BlockDocs enumerates documents of 1..maxTop top-level blocks where containers hold up to two blocks.
func c02BlockDocs(thorough bool, f func(doc []Blk)) {
	leaves := c02Leaves(thorough)
	small := leaves[:6]
	if thorough {
		small = leaves[:11]
	}
	// level-1 containers over leaves
	var conts []Blk
	for _, a := range leaves {
		conts = append(conts, quote(a))
		conts = append(conts, ulist(false, []Blk{a}, []Blk{para(w("b"))}), olist(1, false, []Blk{a}, []Blk{para(w("b"))}))
		if a.K == bPara {
			conts = append(conts, ulist(true, []Blk{a}), ulist(true, []Blk{a}, []Blk{para(w("b"))}), olist(1, true, []Blk{a}, []Blk{para(w("b"))}), olist(7, true, []Blk{a}))
		}
		for _, b := range small {
			conts = append(conts, quote(a, b), ulist(false, []Blk{a, b}), olist(1, false, []Blk{a, b}, []Blk{para(w("c"))}))
		}
	}
	// level-2: containers in containers
	var conts2 []Blk
	inner := []Blk{quote(para(w("a"))), ulist(true, []Blk{para(w("a"))}, []Blk{para(w("b"))}), ulist(false, []Blk{para(w("a"))}, []Blk{para(w("b"))}), olist(1, true, []Blk{para(w("a"))}),
		quote(para(w("a"), softBrk, w("b"))), ulist(true, []Blk{para(w("a"), softBrk, w("b"))})}
	for _, in := range inner {
		conts2 = append(conts2, quote(in), quote(para(w("p")), in), quote(in, para(w("p"))))
		conts2 = append(conts2, ulist(true, []Blk{para(w("p")), in}), ulist(true, []Blk{para(w("p")), in}, []Blk{para(w("q"))}))
		conts2 = append(conts2, ulist(false, []Blk{in}, []Blk{para(w("q"))}), ulist(false, []Blk{para(w("p")), in}), olist(1, false, []Blk{in, para(w("q"))}))
		conts2 = append(conts2, olist(1, true, []Blk{para(w("p")), in}))
		if in.K == bList {
			conts2 = append(conts2, ulist(false, []Blk{para(w("p")), in}, []Blk{para(w("q"))}), olist(1, false, []Blk{para(w("p"))}, []Blk{para(w("q")), in}))
		}
	}
	var all []Blk
	all = append(all, leaves...)
	for _, c := range append(conts, conts2...) {
		ok := validList(c)
		for _, it := range c.Items {
			for _, b := range it {
				ok = ok && validList(b)
			}
		}
		for _, b := range c.Kids {
			ok = ok && validList(b)
		}
		if ok {
			all = append(all, c)
		}
	}
	for _, a := range all {
		f([]Blk{a})
	}
	seconds := append(append([]Blk{}, leaves...), quote(para(w("q"))), ulist(true, []Blk{para(w("l"))}), olist(1, true, []Blk{para(w("l"))}), ulist(false, []Blk{para(w("l"))}, []Blk{para(w("m"))}))
	for _, a := range all {
		for _, b := range seconds {
			f([]Blk{a, b})
		}
	}
	if thorough {
		for _, a := range leaves {
			for _, b := range seconds {
				for _, c := range small {
					f([]Blk{a, b, c})
				}
			}
		}
	}
}

// ---- self-validation of the generator against official examples: the model of an example must print to the example's
// Markdown (default spelling or the listed deviation) and its reference HTML must be the example's HTML

type c02Known struct {
	example int
	doc     []Blk
}

func c02Validate(r *core.Run) (bad []string, n int) {
	ex := map[int]SpecExample{}
	for _, e := range Spec(r) {
		ex[e.Example] = e
	}
	known := []c02Known{
		{219, []Blk{para(w("aaa")), para(w("bbb"))}},
		{43, []Blk{Blk{K: bThematic}, Blk{K: bThematic}, Blk{K: bThematic}}},
		{62, []Blk{heading(1, w("foo")), heading(2, w("foo")), heading(3, w("foo")), heading(4, w("foo")), heading(5, w("foo")), heading(6, w("foo"))}},
		{119, []Blk{codeBlk("", "<"+"\n >")}},
		{228, []Blk{quote(heading(1, w("Foo")), para(w("bar"), softBrk, w("baz")))}},
		{301, []Blk{ulist(true, []Blk{para(w("foo"))}, []Blk{para(w("bar"))}), ulist(true, []Blk{para(w("baz"))})}},
		{350, []Blk{para(em(w("foo"), w("bar")))}},
		{328, []Blk{para(code("foo"))}},
		{482, []Blk{para(link("/uri", "title", w("link")))}},
		{633, []Blk{para(w("foo"), hardBrk, w("baz"))}},
		{294, []Blk{ulist(true, []Blk{para(w("foo")), ulist(true, []Blk{para(w("bar")), ulist(true, []Blk{para(w("baz")), ulist(true, []Blk{para(w("boo"))})})})})}},
		{306, []Blk{ulist(false, []Blk{para(w("foo"))}, []Blk{para(w("bar"))}, []Blk{para(w("baz"))})}},
	}
	for _, k := range known {
		e, ok := ex[k.example]
		if !ok {
			continue
		}
		n++
		if got := RefHTML(k.doc); got != e.HTML {
			bad = append(bad, fmt.Sprintf("example %d: reference renderer gives %q, spec.json has %q", k.example, got, e.HTML))
		}
	}
	return bad, n
}

// ---- spec examples under spec-licensed rewrites

func deepestLastOpen(doc ast.Node, src []byte) bool {
	n := doc
	for {
		l := n.LastChild()
		if l == nil || l.Type() != ast.TypeBlock {
			break
		}
		n = l
	}
	switch n.Kind() {
	case ast.KindFencedCodeBlock, ast.KindHTMLBlock, ast.KindCodeBlock:
		return true
	}
	return false
}

func runC02Spec(r *core.Run) {
	exs := Spec(r)
	s := r.Sub("spec-rewrites", fmt.Sprintf("each of the %d official examples under %s: as is; with an extra final newline; with the final newline removed; with an unrelated closed paragraph placed before it (and a blank line); with a blank line and a paragraph placed after it (skipped when the example ends inside an open fenced/indented code or HTML block, or in a construct that a following line could continue); expected HTML = spec.json's, with <p>para</p> concatenated", len(exs), c02Cfg))
	cfg := core.MustCfg(c02Cfg)
	core.ForEachIndex(len(exs), core.Workers(), func(wk int) func(int) {
		cv := core.NewConv(cfg)
		return func(i int) {
			e := exs[i]
			md := strings.ReplaceAll(e.Markdown, "→", "\t")
			check := func(kind, src, want string) {
				s.Evals.Add(1)
				got, ok := mustConvert(s, cv, []byte(src))
				if ok && string(got) != want {
					s.Violate("spec-rewrite:"+kind+":"+e.Section, cfg.String(), []byte(src), nil, fmt.Sprintf("example %d (%s) under rewrite %q", e.Example, e.Section, kind), want, string(got))
				}
				s.Distinct(core.Hash([]byte(src)))
			}
			check("as-is", md, e.HTML)
			doc0, _ := cv.Parse([]byte(md))
			if strings.HasSuffix(md, "\n") && doc0 != nil && !deepestLastOpen(doc0, []byte(md)) {
				check("extra-final-newline", md+"\n", e.HTML)
				trimmed := strings.TrimSuffix(md, "\n")
				if !strings.HasSuffix(trimmed, " ") && !strings.HasSuffix(trimmed, "\t") && !strings.HasSuffix(trimmed, "\\") && trimmed != "" && !strings.HasSuffix(trimmed, "\n") {
					check("final-newline-removed", trimmed, e.HTML)
				}
			}
			// a closed paragraph before: only if the example does not start with something a paragraph absorbs or that
			// refers back (reference definitions are fine: they are global). Blank line separates.
			check("paragraph-before", "para\n\n"+md, "<p>para</p>\n"+e.HTML)
			doc, _ := cv.Parse([]byte(md))
			if doc != nil && !deepestLastOpen(doc, []byte(md)) && strings.HasSuffix(md, "\n") {
				check("paragraph-after", md+"\npara\n", e.HTML+"<p>para</p>\n")
			}
			if i%100 == 0 {
				s.AddSample(fmt.Sprintf("example %d (%s)", e.Example, e.Section))
			}
		}
	}, r.Expired)
	s.States.Store(int64(len(exs)))
	s.Transitions.Store(s.Evals.Load())
	s.Bound = fmt.Sprintf("%d examples × ≤5 rewrites", len(exs))
	s.Done()
}

// runC02Emphasis: inline-structure documents (letters, blanks, '.', '!', '*', '_', '[', ']', '`', '\', "(u)" behind a ']')
// against an independent implementation of the specification's inline procedure in its definitional form (c02emph.go): code
// spans, backslash escapes, emphasis, inline links and images with their precedence. The meaning of such a document is
// fixed by the rules of §6.1–§6.4; the reference is validated on every official example of those sections that stays
// inside its alphabet.
func runC02Emphasis(r *core.Run) {
	validated := 0
	sections := map[string]bool{"Emphasis and strong emphasis": true, "Links": true, "Images": true, "Code spans": true, "Backslash escapes": true}
	for _, e := range Spec(r) {
		md := strings.TrimSuffix(e.Markdown, "\n")
		if !sections[e.Section] || strings.Contains(md, "\n") || !emphPlain(md) || !emphParagraphSafe(md) {
			continue
		}
		validated++
		if want := "<p>" + emphRefHTML(md) + "</p>\n"; want != e.HTML {
			fmt.Printf("C02: the inline reference disagrees with official example %d (%q): %q vs %q (the check is broken, no verdict)\n", e.Example, md, want, e.HTML)
			os2Exit(r)
		}
	}
	r.Assume = append(r.Assume, fmt.Sprintf("inline reference (code spans, escapes, emphasis, inline links, images) reproduces the %d official examples of those sections that stay inside its alphabet", validated))
	cfg := core.MustCfg(c02Cfg)
	for _, a := range []struct {
		name   string
		toks   []string
		nq, nt int
	}{
		{"emphasis-runs", []string{"*", "_", "a", " ", "."}, 9, 10},
		{"inline-runs", []string{"*", "_", "[", "]", "(u)", "!", "`", "a", " ", "\\"}, 6, 7},
		{"bracket-runs", []string{"*", "[", "]", "(u)", "![", "`", "a"}, 7, 8},
		{"ampersand-runs", []string{"&", "&amp;", "amp;", "a", "\\", "*", "`", "[", "](u)"}, 6, 7},
		{"multi-line-runs", []string{"\n", "`", "``", "*", "[", "](u)", "a", "_", " "}, 6, 7},
	} {
		wordsSub(r, a.name, fmt.Sprintf("as the content of an ATX heading and, where the line is a paragraph, alone: output must equal <h1>/<p> around the HTML an independent definitional implementation of CommonMark 6.1-6.4 (code spans, backslash escapes, emphasis, inline links, images) prescribes (validated on %d official examples); words with a leading or trailing blank (or, in multi-line words, a line that is empty, starts or ends with a blank or would not be a paragraph line on its own) are out of scope and skipped; evaluations = words visited; distinct = output digest", validated),
			a.toks, core.Pick(r, a.nq, a.nt), func(s *core.Sub, w int) func([]byte) uint64 {
				cv := core.NewConv(cfg)
				var doc []byte
				return func(word []byte) uint64 {
					if word[0] == ' ' || word[len(word)-1] == ' ' {
						return 0
					}
					ws := string(word)
					if strings.Contains(ws, "\n") {
						// several lines: a paragraph only; every line must be a paragraph line of its own
						for _, l := range strings.Split(ws, "\n") {
							if l == "" || l[0] == ' ' || l[len(l)-1] == ' ' || !emphParagraphSafe(l) {
								return 0
							}
						}
						ref := emphRefHTML(ws)
						got, ok := mustConvert(s, cv, word)
						if ok && string(got) != "<p>"+ref+"</p>\n" {
							s.Violate("differs-from-spec:"+a.name+":paragraph", cfg.String(), word, nil, "inline structure differs from what CommonMark 6.1-6.4 prescribes", "<p>"+ref+"</p>\n", string(got))
						}
						if strings.Contains(ref, "<") {
							return core.Hash(got)
						}
						return 0
					}
					ref := emphRefHTML(ws)
					doc = append(append(doc[:0], "# "...), word...)
					got, ok := mustConvert(s, cv, doc)
					if ok && string(got) != "<h1>"+ref+"</h1>\n" {
						s.Violate("differs-from-spec:"+a.name+":heading", cfg.String(), doc, nil, "inline structure differs from what CommonMark 6.1-6.4 prescribes", "<h1>"+ref+"</h1>\n", string(got))
					}
					h := core.Hash(got)
					if emphParagraphSafe(ws) {
						got, ok := mustConvert(s, cv, word)
						if ok && string(got) != "<p>"+ref+"</p>\n" {
							s.Violate("differs-from-spec:"+a.name+":paragraph", cfg.String(), word, nil, "inline structure differs from what CommonMark 6.1-6.4 prescribes", "<p>"+ref+"</p>\n", string(got))
						}
					}
					if strings.Contains(ref, "<") {
						return h
					}
					return 0
				}
			})
	}
}

// runC02InlineNesting: inline wrappers nested to depth d (emphasis, strong emphasis, inline link, image, code span; at
// every level the inner part alone, behind "a " or in front of " a"), judged by the inline reference: links in links,
// links in images in links, emphasis across brackets, code spans hiding everything.
func runC02InlineNesting(r *core.Run) {
	depth := core.Pick(r, 4, 5)
	wr := [][2]string{{"*", "*"}, {"**", "**"}, {"[", "](u)"}, {"![", "](u)"}, {"`", "`"}, {"_", "_"}}
	var docs []string
	var rec func(inner string, d int)
	rec = func(inner string, d int) {
		docs = append(docs, inner)
		if d == depth {
			return
		}
		for _, w := range wr {
			for _, v := range []string{inner, "a " + inner, inner + " a"} {
				rec(w[0]+v+w[1], d+1)
			}
		}
	}
	rec("a", 0)
	cfg := core.MustCfg(c02Cfg)
	s := r.Sub("inline-nesting", fmt.Sprintf("%d documents: 'a' wrapped up to %d times in emphasis (* and _), strong emphasis, inline link, image or code span, at each level alone, behind 'a ' or in front of ' a'; as heading content and as a paragraph: output must equal the HTML the independent inline reference prescribes", len(docs), depth))
	s.Planned = int64(len(docs))
	s.Bound = fmt.Sprintf("depth ≤ %d, %d wrappers × 3 sibling positions", depth, len(wr))
	core.ForEachIndex(len(docs), core.Workers(), func(w int) func(int) {
		cv := core.NewConv(cfg)
		return func(i int) {
			ws := docs[i]
			ref := emphRefHTML(ws)
			got, ok := mustConvert(s, cv, []byte("# "+ws))
			if ok && string(got) != "<h1>"+ref+"</h1>\n" {
				s.Violate("differs-from-spec:inline-nesting:heading", cfg.String(), []byte("# "+ws), nil, "inline structure differs from what CommonMark 6.1-6.4 prescribes", "<h1>"+ref+"</h1>\n", string(got))
			}
			if emphParagraphSafe(ws) {
				got, ok := mustConvert(s, cv, []byte(ws))
				if ok && string(got) != "<p>"+ref+"</p>\n" {
					s.Violate("differs-from-spec:inline-nesting:paragraph", cfg.String(), []byte(ws), nil, "inline structure differs from what CommonMark 6.1-6.4 prescribes", "<p>"+ref+"</p>\n", string(got))
				}
			}
			s.Evals.Add(1)
			s.Distinct(core.Hash([]byte(ref)))
			if i%(len(docs)/6+1) == 0 {
				s.AddSample(ws)
			}
		}
	}, r.Expired)
	s.States.Store(s.Evals.Load())
	s.Transitions.Store(s.Evals.Load())
	s.Done()
}

func runC02(r *core.Run) {
	if bad, n := c02Validate(r); len(bad) > 0 {
		fmt.Println("C02: the reference renderer disagrees with official examples (the check is broken, no verdict):")
		for _, b := range bad {
			fmt.Println("  ", b)
		}
		os2Exit(r)
	} else {
		r.Assume = append(r.Assume, fmt.Sprintf("reference renderer reproduces %d hand-encoded official examples", n))
	}
	runC02Spec(r)
	runC02Emphasis(r)
	runC02InlineNesting(r)
	cfg := core.MustCfg(c02Cfg)
	thorough := !r.Quick()

	// inline-focused documents
	seqs := c02Seqs(thorough)
	wrappers := []struct {
		name string
		mk   func(seq []Inl) []Blk
	}{
		{"paragraph", func(q []Inl) []Blk { return []Blk{para(q...)} }},
		{"heading", func(q []Inl) []Blk {
			if hasBreak(q) {
				return []Blk{heading(2, q...)}
			}
			return []Blk{heading(1, q...)}
		}},
		{"quote-item", func(q []Inl) []Blk { return []Blk{quote(para(q...)), ulist(true, []Blk{para(q...)})} }},
		{"para-quote-para", func(q []Inl) []Blk {
			return []Blk{para(q...), quote(para(q...)), olist(1, false, []Blk{para(q...), para(q...)})}
		}},
	}
	d := 2
	for wi, wr := range wrappers {
		dd := d
		if wi > 0 && !thorough {
			dd = 1
		}
		s := r.Sub("inline-"+wr.name, fmt.Sprintf("every inline sequence of ≤2 items (and a break between two items) over %d inline items (words, escaped punctuation, code spans, emphasis/strong nests, links and images with escaped destinations and titles, autolinks, raw tags) placed in a %s, printed with every spelling vector of ≤%d deviations from the default (escape form, emphasis character, code-span ticks/padding, link form inline/<dest>/'title'/(title)/full/case-flipped/padded label/collapsed/shortcut, break form, continuation indent, block indent, heading form, definitions position, final newline) and converted under %s; output must equal the reference renderer's HTML", len(c02Items(thorough)), wr.name, dd, c02Cfg))
		core.ForEachIndex(len(seqs), core.Workers(), func(wk int) func(int) {
			cv := core.NewConv(cfg)
			return func(i int) {
				n := c02Doc(s, cv, wr.mk(seqs[i]), dd, wr.name)
				s.Evals.Add(n)
				s.States.Add(1)
				if i%(len(seqs)/5+1) == 0 {
					md, _ := PrintMarkdown(wr.mk(seqs[i]), nil)
					s.AddSample(core.Q([]byte(md)))
				}
				s.Distinct(core.Hash([]byte(RefHTML(wr.mk(seqs[i])))))
			}
		}, r.Expired)
		s.Transitions.Store(s.Evals.Load())
		s.Extra["traces_validated_against_impl"] = s.Evals.Load()
		s.Bound = fmt.Sprintf("items≤2(+break) × deviations≤%d", dd)
		s.Done()
	}

	// tab-spelled indentation: the canonical spelling of this sub-check writes tabs wherever a tab reaches the same column
	{
		tdocs := c02TabDocs()
		for _, ms := range []int{2, 1, 3, 0} {
			prefer := map[string]int{"tab-indent": 1, "tab-after-marker": 1, "code-form": 7, "marker-spaces": ms}
			s := r.Sub(fmt.Sprintf("tabs/marker-spaces=%d", ms+1), fmt.Sprintf("%d list/quote/code documents whose canonical spelling here uses %d space(s) after the list marker and a TAB wherever a tab reaches the same column (after the marker, as continuation indentation of a 4-column item, as indented-code prefix at a column divisible by 4), with every vector of ≤%d deviations from that canonical spelling; output must equal the reference renderer's HTML", len(tdocs), ms+1, d))
			core.ForEachIndex(len(tdocs), core.Workers(), func(wk int) func(int) {
				cv := core.NewConv(cfg)
				return func(i int) {
					n := c02DocPrefer(s, cv, tdocs[i], d, "tabs", prefer)
					s.Evals.Add(n)
					s.States.Add(1)
					if i%(len(tdocs)/4+1) == 0 {
						md, _ := PrintMarkdownPrefer(tdocs[i], nil, prefer)
						s.AddSample(core.Q([]byte(md)))
					}
					md, _ := PrintMarkdownPrefer(tdocs[i], nil, prefer)
					s.Distinct(core.Hash([]byte(md)))
				}
			}, r.Expired)
			s.Transitions.Store(s.Evals.Load())
			s.Bound = fmt.Sprintf("%d documents × deviations≤%d", len(tdocs), d)
			s.Done()
		}
	}

	// container chains of every depth
	{
		maxN := core.Pick(r, 80, 160)
		type chain struct {
			doc  []Blk
			n, k int
		}
		var chains []chain
		c02DepthChains(maxN, func(doc []Blk, n, k int) { chains = append(chains, chain{doc, n, k}) })
		s := r.Sub("depth-chains", fmt.Sprintf("container chains of EVERY depth n = 1..%d in six patterns (bullet lists, ordered lists, block quotes, alternations): each level holds a paragraph and the next level; one level k (every k for n ≤ 8, else 1, 2, n/2, n-1, n) has a second item, tight or loose — %d model documents, each in every spelling vector with ≤1 deviation for n ≤ 6 and in the default spelling beyond; output must equal the reference renderer's HTML", maxN, len(chains)))
		core.ForEachIndex(len(chains), core.Workers(), func(wk int) func(int) {
			cv := core.NewConv(cfg)
			return func(i int) {
				c := chains[i]
				dd := 0
				if c.n <= 6 {
					dd = 1
				}
				n := c02Doc(s, cv, c.doc, dd, fmt.Sprintf("depth-chain n=%d k=%d", c.n, c.k))
				// the same with the only blank line of a loose level behind the deepest line (between the items)
				n += c02DocPrefer(s, cv, c.doc, 0, fmt.Sprintf("depth-chain n=%d k=%d, loose by the gap between items only", c.n, c.k), map[string]int{"item-blocks-blank-line": 1})
				s.Evals.Add(n)
				s.States.Add(1)
				if i%(len(chains)/5+1) == 0 {
					md, _ := PrintMarkdown(c.doc, nil)
					s.AddSample(core.Q([]byte(md)))
				}
				s.Distinct(core.Hash([]byte(RefHTML(c.doc))))
			}
		}, r.Expired)
		s.Transitions.Store(s.Evals.Load())
		s.Bound = fmt.Sprintf("%d model documents, depth ≤ %d", len(chains), maxN)
		s.Done()
	}

	// block-structure documents
	var docs [][]Blk
	c02BlockDocs(thorough, func(doc []Blk) { docs = append(docs, doc) })
	s := r.Sub("block-structure", fmt.Sprintf("every document of 1..%d top-level blocks from leaves (paragraph, headings, thematic break, code blocks with/without info and blank/indented lines, HTML block) and containers (block quote, tight/loose bullet/ordered lists, nested one level) — %d model documents — printed with every spelling vector of ≤%d deviations (marker character, list indent 0–3, spaces/tab after the marker, content on the next line, tab indentation, quote marker with/without space, lazy continuation, fence character/length/indent/unclosed at end, indented vs fenced, ATX closers, Setext underline length, thematic spelling, omitted blank line where allowed, block indent 0–3, final newline); output must equal the reference renderer's HTML", core.Pick(r, 2, 3), len(docs), d))
	core.ForEachIndex(len(docs), core.Workers(), func(wk int) func(int) {
		cv := core.NewConv(cfg)
		return func(i int) {
			n := c02Doc(s, cv, docs[i], d, "blocks")
			s.Evals.Add(n)
			s.States.Add(1)
			if i%(len(docs)/5+1) == 0 {
				md, _ := PrintMarkdown(docs[i], nil)
				s.AddSample(core.Q([]byte(md)))
			}
			s.Distinct(core.Hash([]byte(RefHTML(docs[i]))))
		}
	}, r.Expired)
	s.Transitions.Store(s.Evals.Load())
	s.Bound = fmt.Sprintf("%d model documents × deviations≤%d", len(docs), d)
	s.Done()
}

// c02DepthChains returns container chains of EVERY depth n = 1..maxN: level i is a bullet list, an ordered list or a block
// quote (five patterns) whose single item / body holds a paragraph and the next level; at one level k (every k for small n,
// else k ∈ {1, 2, n/2, n-1, n}) the list gets a second item, tight (no blank line) or loose (a blank line between the
// items). Anything that is kept per open block or per line (blank-line statistics, container stacks, indentation
// arithmetic) crosses each of its thresholds at some n.
func c02DepthChains(maxN int, f func(doc []Blk, n, k int)) {
	kinds := [][]int{{0}, {1}, {2}, {0, 2}, {0, 1}, {2, 2, 0}}
	for _, pat := range kinds {
		for n := 1; n <= maxN; n++ {
			ks := map[int]bool{0: true}
			if n <= 8 {
				for k := 1; k <= n; k++ {
					ks[k] = true
				}
			} else {
				for _, k := range []int{1, 2, n / 2, n - 1, n} {
					ks[k] = true
				}
			}
			for k := 0; k <= n; k++ {
				if !ks[k] {
					continue
				}
				if k > 0 && pat[(k-1)%len(pat)] == 2 {
					continue // level k is a quote: no second item
				}
				for _, tight := range []bool{true, false} {
					if k == 0 && !tight {
						continue
					}
					var build func(level int) Blk
					build = func(level int) Blk {
						kind := pat[(level-1)%len(pat)]
						body := []Blk{para(w("a"))}
						if level < n {
							body = append(body, build(level+1))
						}
						switch kind {
						case 2:
							return quote(body...)
						case 1:
							if level == k {
								return olist(1, tight, body, []Blk{para(w("b"))})
							}
							return olist(1, true, body)
						}
						if level == k {
							return ulist(tight, body, []Blk{para(w("b"))})
						}
						return ulist(true, body)
					}
					f([]Blk{build(1)}, n, k)
				}
			}
		}
	}
}

// c02TabDocs returns the list/quote/code model documents of the tab sub-check.
func c02TabDocs() [][]Blk {
	var tdocs [][]Blk
	p, q, c := para(w("p")), para(w("q")), codeBlk("", "c")
	contents := [][]Blk{{p}, {p, c}, {p, codeBlk("", "c\n\n d")}, {p, q}, {p, quote(q)}, {p, quote(c)}, {p, ulist(true, []Blk{q})}, {p, ulist(false, []Blk{q, c})}, {p, olist(1, false, []Blk{q, c})},
		{heading(1, w("h")), c}, {p, c, q}, {p, ulist(false, []Blk{q, ulist(false, []Blk{para(w("r")), c})})}}
	for _, x := range contents {
		tdocs = append(tdocs, []Blk{ulist(false, x, []Blk{para(w("b"))})}, []Blk{olist(1, false, x, []Blk{para(w("b"))})}, []Blk{olist(7, false, x)}, []Blk{ulist(false, x), para(w("z"))})
		if len(x) == 2 && x[1].K == bList {
			tdocs = append(tdocs, []Blk{ulist(true, x)}, []Blk{olist(1, true, x, []Blk{para(w("b"))})})
		}
		tdocs = append(tdocs, []Blk{quote(x...)}, []Blk{quote(ulist(false, x))})
	}
	tdocs = append(tdocs, []Blk{c}, []Blk{codeBlk("", "c\n\td")}, []Blk{heading(1, w("h")), c, para(w("z"))})
	{
		var keep [][]Blk
		var okTree func(bs []Blk) bool
		okTree = func(bs []Blk) bool {
			for _, b := range bs {
				if !validList(b) || !okTree(b.Kids) {
					return false
				}
				for _, it := range b.Items {
					if !okTree(it) {
						return false
					}
				}
			}
			return true
		}
		for _, d := range tdocs {
			if okTree(d) {
				keep = append(keep, d)
			}
		}
		tdocs = keep
	}
	return tdocs
}

// c02Variants calls f with the Markdown of doc under every choice vector with ≤d deviations from the (preferred) spelling.
func c02Variants(doc []Blk, d int, prefer map[string]int, f func(md string)) {
	var rec func(over map[int]int, from, left int)
	rec = func(over map[int]int, from, left int) {
		md, log := PrintMarkdownPrefer(doc, over, prefer)
		f(md)
		if left == 0 {
			return
		}
		for i := from; i < len(log); i++ {
			for v := 1; v < log[i].N; v++ {
				o2 := map[int]int{i: v}
				for k, x := range over {
					o2[k] = x
				}
				rec(o2, i+1, left-1)
			}
		}
	}
	rec(map[int]int{}, 0, d)
}

var (
	modelDocsOnce sync.Once
	modelDocs     [][]byte
)

// ModelDocs returns printed model documents for use as inputs by other checks (their expected HTML is not used there):
// the tab documents under four canonical spellings with every single deviation, and the block-structure documents in
// their default spelling. De-duplicated.
func ModelDocs() [][]byte {
	modelDocsOnce.Do(func() {
		seen := map[string]bool{}
		add := func(md string) {
			if !seen[md] {
				seen[md] = true
				modelDocs = append(modelDocs, []byte(md))
			}
		}
		for _, ms := range []int{2, 1, 3, 0} {
			prefer := map[string]int{"tab-indent": 1, "tab-after-marker": 1, "code-form": 7, "marker-spaces": ms}
			for _, d := range c02TabDocs() {
				c02Variants(d, 1, prefer, add)
			}
		}
		for _, d := range c02TabDocs() {
			c02Variants(d, 1, nil, add)
		}
		c02BlockDocs(false, func(doc []Blk) { c02Variants(doc, 0, nil, add) })
	})
	return modelDocs
}

func os2Exit(r *core.Run) {
	r.Finish()
	os.Exit(2)
}

func replayC02(r *core.Run, v *core.Violation) {
	cfg, err := core.ParseCfg(v.Cfg)
	if err != nil {
		fmt.Println(err)
		return
	}
	s := r.Sub(v.Sub, "replay of one printed document against the recorded reference HTML")
	got, ok := mustConvert(s, core.NewConv(cfg), v.Input())
	s.Evals.Add(1)
	if ok && string(got) != v.Expected {
		s.Violate(v.Sig, v.Cfg, v.Input(), nil, "output still differs from the recorded reference HTML", v.Expected, string(got))
	}
	s.Done()
}

// normHTML removes the whitespace the specification's own comparison ignores: a newline directly before a tag or directly
// after one, outside <pre> (where every byte counts), and trailing newlines.
func normHTML(s string) string {
	var b strings.Builder
	inPre := false
	for i := 0; i < len(s); i++ {
		if strings.HasPrefix(s[i:], "<pre") {
			inPre = true
		} else if strings.HasPrefix(s[i:], "</pre>") {
			inPre = false
		}
		if s[i] == '\n' && !inPre {
			if i+1 == len(s) || s[i+1] == '<' || (i > 0 && s[i-1] == '>') {
				continue
			}
		}
		b.WriteByte(s[i])
	}
	return b.String()
}
