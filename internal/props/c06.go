package props

import (
	"bytes"
	"errors"
	"fmt"
	"os"
	"os/exec"
	"regexp"
	"strconv"
	"strings"

	"github.com/yuin/goldmark"
	"github.com/yuin/goldmark/extension"
	"github.com/yuin/goldmark/parser"
	"github.com/yuin/goldmark/renderer/html"
	"github.com/yuin/goldmark/text"

	"github.com/yuin/goldmark/ast"

	"verif/internal/core"
)

func init() {
	register(&Check{ID: "C06", QuickS: 200, ThorS: 1800, Run: runC06, Replay: replayC06, Workers: c06Worker})
}

// leak-prone documents: each one carries per-document state that must not survive into the next conversion
var c06Docs = []string{
	"[foo]: /u \"t\"\n\n[foo] [bar]\n",
	"[bar]: /other\n\n[foo] [bar]\n",
	"# a\n\n# a\n\n## a-1\n",
	"a\n===\n\n# a\n",
	"x[^1] y[^2]\n\n[^1]: one\n[^2]: two\n",
	"x[^2]\n\n[^2]: only\n",
	"x[^1] again[^1] and[^1] y[^2] z[^2]\n\n[^1]: one\n[^2]: two\n",
	"[Foo Bar]: /first\n[foo  bar]: /second\n[FOO BAR]: /third\n[fOO\nbar]: /fourth\n[ẞtraße]: /s1\n[SSTRASSE]: /s2\n\n[foo bar] [Foo Bar][] [x][FOO  BAR] [sstrasse]\n",
	"\"open 'single\n\nnext \"para\" 'q'\n",
	"|a|b|c|\n|:-|-:|:-:|\n|1|2|3|\n",
	"```go\nx\n",
	"- \n\n\n  a\n- b\n",
	"a\n-\n\nb\n--\n",
	"# h {#id .c k=v}\n\nh2 {#id}\n--\n",
	"- [ ] t\n- [x] u\n",
	"term\n: def\n\nt2\n: d2\n",
	"&amp; &#35; www.a.bc http://a.bc a@b.cd ~~s~~\n",
}

type c06Op struct {
	kind byte // 'C' convert, 'P' parse, 'R' render tree #arg
	arg  int
}

func (o c06Op) String() string {
	switch o.kind {
	case 'C':
		return fmt.Sprintf("Convert(doc%d)", o.arg)
	case 'P':
		return fmt.Sprintf("Parse(doc%d)", o.arg)
	case 'F':
		return fmt.Sprintf("Convert(doc%d) into a writer that refuses every byte", o.arg)
	case 'G':
		return fmt.Sprintf("Convert(doc%d) into a writer that fails after 7 bytes", o.arg)
	}
	return fmt.Sprintf("Render(tree%d)", o.arg)
}

func c06Ops(ndocs int) []c06Op {
	var ops []c06Op
	for d := 0; d < ndocs; d++ {
		ops = append(ops, c06Op{'C', d})
	}
	for d := 0; d < ndocs; d++ {
		ops = append(ops, c06Op{'P', d})
	}
	for i := 0; i < 3; i++ {
		ops = append(ops, c06Op{'R', i})
	}
	// failed conversions belong to an instance's history too: Convert into a writer that refuses every byte ('F') and
	// into one that fails after 7 bytes ('G'), for the first documents
	for d := 0; d < ndocs && d < 8; d++ {
		ops = append(ops, c06Op{'F', d}, c06Op{'G', d})
	}
	return ops
}

type c06FailWriter struct{ left int }

func (w *c06FailWriter) Write(p []byte) (int, error) {
	if len(p) <= w.left {
		w.left -= len(p)
		return len(p), nil
	}
	n := w.left
	w.left = 0
	return n, errors.New("writer failed")
}

// c06History runs one history on a new instance and compares every result with the fresh-instance result.
func c06History(s *core.Sub, cfg core.Cfg, hist []c06Op, fresh [][]byte) (valid bool) {
	cv := core.NewConv(cfg)
	var trees []ast.Node
	var treeDoc []int
	for i, op := range hist {
		var out []byte
		var err error
		var pan any
		want := -1
		switch op.kind {
		case 'C':
			out, err, pan = cv.Convert([]byte(c06Docs[op.arg]))
			want = op.arg
		case 'P':
			var doc ast.Node
			doc, pan = cv.Parse([]byte(c06Docs[op.arg]))
			trees = append(trees, doc)
			treeDoc = append(treeDoc, op.arg)
		case 'F', 'G':
			// the result of a failed conversion is C14's business; here it only has to leave nothing behind
			func() {
				defer func() { _ = recover() }()
				left := 0
				if op.kind == 'G' {
					left = 7
				}
				_ = cv.MD.Convert([]byte(c06Docs[op.arg]), &c06FailWriter{left})
			}()
			continue
		case 'R':
			if op.arg >= len(trees) {
				return false // not a well-formed history
			}
			out, err, pan = cv.Render([]byte(c06Docs[treeDoc[op.arg]]), trees[op.arg])
			want = treeDoc[op.arg]
		}
		if pan != nil || err != nil {
			s.Violate("failed:"+op.String(), cfg.String(), nil, histStrings(hist[:i+1]), fmt.Sprint("panic=", pan, " err=", err), "", "")
			return true
		}
		if want >= 0 && !bytes.Equal(out, fresh[want]) {
			s.Violate(fmt.Sprintf("history-dependent:%c:doc%d", op.kind, want), cfg.String(), nil, histStrings(hist[:i+1]),
				fmt.Sprintf("step %d %s differs from the same operation on a fresh instance; doc=%s", i, op, core.Q([]byte(c06Docs[want]))), string(fresh[want]), string(out))
			return true
		}
	}
	return true
}

func histStrings(h []c06Op) []string {
	out := make([]string, len(h))
	for i, o := range h {
		out[i] = o.String()
	}
	return out
}

// runC06EntryPoints: the same source and configuration through every entry point of the public API must give the same
// bytes: Markdown.Convert; Parser().Parse + Renderer().Render; Convert with an explicitly supplied fresh parse context;
// Parse with an explicitly supplied fresh context; a second Render of the tree; and, for the default
// configuration, the package-level goldmark.Convert and a Markdown assembled from DefaultParser/DefaultRenderer.
func runC06EntryPoints(r *core.Run) {
	docs := c12StructuredDocs(r.Quick())
	for _, cn := range []string{"core", "all+autoid+attr", "custom2+autoid+unsafe+xhtml"} {
		cfg := core.MustCfg(cn)
		s := r.Sub("entry-points/"+cn, fmt.Sprintf("%d documents of the structured corpus under %s: Convert == Parse+Render == Convert(WithContext(new context)) == Parse(WithContext(NewContext()))+Render == second Render of that tree (and, for core, == package-level goldmark.Convert == a Markdown built from DefaultParser()/DefaultRenderer())", len(docs), cn))
		s.Bound = fmt.Sprintf("%d documents × 5–7 entry points", len(docs))
		complete := core.ForEachIndex(len(docs), core.Workers(), func(w int) func(int) {
			cv := core.NewConv(cfg)
			var dflt goldmark.Markdown
			if cn == "core" {
				dflt = goldmark.New(goldmark.WithParser(goldmark.DefaultParser()), goldmark.WithRenderer(goldmark.DefaultRenderer()))
			}
			var ref, b bytes.Buffer
			return func(i int) {
				src := docs[i]
				out, ok := mustConvert(s, cv, src)
				if !ok {
					return
				}
				ref.Reset()
				ref.Write(out)
				check := func(name string, f func() error) {
					b.Reset()
					var err error
					func() {
						defer func() {
							if p := recover(); p != nil {
								err = fmt.Errorf("panic: %v", p)
							}
						}()
						err = f()
					}()
					s.Evals.Add(1)
					if err != nil || !bytes.Equal(b.Bytes(), ref.Bytes()) {
						s.Violate("entry-point-differs:"+name, cfg.String(), src, nil, fmt.Sprintf("%s gives other bytes than Convert (err=%v)", name, err), ref.String(), b.String())
					}
				}
				md := cv.MD
				check("Parse+Render", func() error { return md.Renderer().Render(&b, src, md.Parser().Parse(text.NewReader(src))) })
				check("Convert(WithContext)", func() error { return md.Convert(src, &b, parser.WithContext(parser.NewContext())) })
				var tree ast.Node
				check("Parse(WithContext)+Render", func() error {
					tree = md.Parser().Parse(text.NewReader(src), parser.WithContext(parser.NewContext()))
					return md.Renderer().Render(&b, src, tree)
				})
				check("second Render", func() error { return md.Renderer().Render(&b, src, tree) })
				if dflt != nil {
					check("goldmark.Convert", func() error { return goldmark.Convert(src, &b) })
					check("DefaultParser/DefaultRenderer", func() error { return dflt.Convert(src, &b) })
				}
				s.Distinct(core.Hash(out))
			}
		}, r.Expired)
		if !complete {
			s.Incomplete("internal deadline reached")
		}
		s.States.Store(int64(len(docs)))
		s.Transitions.Store(s.Evals.Load())
		s.Done()
	}
}

// c06Conflicts are configurations in which two options speak about the same thing through the renderer-option channel
// (stored in a map and applied in map iteration order on first use): whatever the documented winner is, it has to be the
// same one on every fresh instance.
var c06Conflicts = []c06Custom{
	{"footnote+renderer-options(prefix, prefix function)", func() goldmark.Markdown {
		return goldmark.New(goldmark.WithExtensions(extension.Footnote), goldmark.WithRendererOptions(
			extension.WithFootnoteIDPrefix("a-"), extension.WithFootnoteIDPrefixFunction(func(ast.Node) []byte { return []byte("b-") })))
	}},
	{"NewFootnote(prefix)+renderer-options(prefix function, titles, classes)", func() goldmark.Markdown {
		return goldmark.New(goldmark.WithExtensions(extension.NewFootnote(extension.WithFootnoteIDPrefix("c-"))), goldmark.WithRendererOptions(
			extension.WithFootnoteIDPrefixFunction(func(ast.Node) []byte { return []byte("d-") }), extension.WithFootnoteLinkTitle("t"), extension.WithFootnoteBacklinkTitle("u"),
			extension.WithFootnoteLinkClass("k"), extension.WithFootnoteBacklinkClass("l"), extension.WithFootnoteBacklinkHTML("m")))
	}},
	{"table(attr)+renderer-options(style)+xhtml+unsafe+hardwraps", func() goldmark.Markdown {
		return goldmark.New(goldmark.WithExtensions(extension.NewTable(extension.WithTableCellAlignMethod(extension.TableCellAlignAttribute)), extension.TaskList, extension.NewCJK()),
			goldmark.WithRendererOptions(extension.WithTableCellAlignMethod(extension.TableCellAlignStyle), html.WithXHTML(), html.WithUnsafe(), html.WithHardWraps(),
				html.WithEastAsianLineBreaks(html.EastAsianLineBreaksCSS3Draft), html.WithWriter(html.NewWriter(html.WithEscapedSpace()))))
	}},
	{"typographer+linkify options through both channels", func() goldmark.Markdown {
		return goldmark.New(goldmark.WithExtensions(
			extension.NewTypographer(extension.WithTypographicSubstitutions(map[extension.TypographicPunctuation]string{extension.EnDash: "N"})),
			extension.NewLinkify(extension.WithLinkifyAllowedProtocols([]string{"http:"}))),
			goldmark.WithParserOptions(extension.WithTypographicSubstitutions(map[extension.TypographicPunctuation]string{extension.EnDash: "M"}),
				extension.WithLinkifyAllowedProtocols([]string{"ftp:"}), parser.WithAutoHeadingID(), parser.WithAttribute()))
	}},
}

// runC06Fresh: a new instance of one configuration is a function of that configuration: K instances built one after the
// other must all give the same bytes. (Option maps are iterated in an order the runtime randomises per map, so this part
// repeats construction instead of enumerating; it is reported as a companion, not as exhaustive.)
func runC06Fresh(r *core.Run) {
	k := core.Pick(r, 200, 1000)
	docs := []string{"a[^1] b[^1] -- 'q'\n\n[^1]: n\n\n|h|\n|:-:|\n|c|\n\n- [ ] t\n\n<b>r</b> ![i](j)\nx\\ y www.a.bc ftp://d.e http://f.g\n\n# h {#i}\n"}
	var all []c06Custom
	all = append(all, c06Conflicts...)
	all = append(all, c06Customs...)
	s := r.Sub("fresh-instances", fmt.Sprintf("%d configurations (%d of them with two options about the same setting given through the option-map channel): %d instances of each are built one after the other and must all convert a kitchen-sink document to the same bytes; NOT exhaustive (map iteration order is chosen by the runtime)", len(all), len(c06Conflicts), k))
	s.Exhaustive = false
	s.Companion = true
	core.ForEachIndex(len(all), core.Workers(), func(w int) func(int) {
		return func(i int) {
			var ref []byte
			for j := 0; j < k; j++ {
				cv := &core.Conv{MD: all[i].mk()}
				for _, d := range docs {
					out, err, pan := cv.Convert([]byte(d))
					s.Evals.Add(1)
					if err != nil || pan != nil {
						s.Violate("fresh-instance-failed:"+all[i].name, all[i].name, []byte(d), nil, fmt.Sprintf("err=%v panic=%v", err, pan), "", "")
						return
					}
					if j == 0 {
						ref = append([]byte{}, out...)
						s.Distinct(core.Hash(out))
					} else if !bytes.Equal(ref, out) {
						s.Violate("fresh-instances-differ:"+all[i].name, all[i].name, []byte(d), nil, fmt.Sprintf("instance %d of the same configuration gives other bytes than instance 0", j), string(ref), string(out))
						return
					}
				}
			}
		}
	}, r.Expired)
	s.Bound = fmt.Sprintf("%d configurations × %d fresh instances", len(all), k)
	s.States.Store(int64(len(all) * k))
	s.Transitions.Store(s.Evals.Load())
	s.Done()
}

// runC06URLPairs: every ordered pair of URL-bearing documents on one instance: what the instance learnt about one
// destination (its scheme, its media type, its escaped form) must not colour the next document's.
func runC06URLPairs(r *core.Run) {
	docs, tmpls, urls := c06URLDocs()
	c06URLPairsRun(r, docs, len(tmpls), len(urls))
}

// c06URLDocs: URL-bearing constructs × destinations of every class.
func c06URLDocs() (docs [][]byte, tmpls, urls []string) {
	urls = []string{"/ok", "http://a.bc/?x=1&y=2", "javascript:alert(1)", "JAVASCRIPT:alert(1)", "vbscript:x", "file:///etc/passwd", "data:text/html,x", "data:image/png;base64,AA",
		"data:image/svg+xml;base64,AA", "DATA:image/gif;base64,AA", "data:image/png,AA", "Data:text/html,y", "mailto:a@b.cd", "javascript", "data:", "x:y", "java&#115;cript:z", "/a%20b c"}
	tmpls = []string{"[a](§)", "![a](§)", "<§>", "[a][r]\n\n[r]: §\n", "[a](<§> 't')"}
	for _, t := range tmpls {
		for _, u := range urls {
			docs = append(docs, []byte(strings.ReplaceAll(t, "§", u)))
		}
	}
	return
}

func c06URLPairsRun(r *core.Run, docs [][]byte, ntmpl, nurl int) {
	for _, cn := range []string{"core", "all+autoid+attr", "core+unsafe+xhtml"} {
		cfg := core.MustCfg(cn)
		fresh := make([][]byte, len(docs))
		for i, d := range docs {
			out, _, _ := core.NewConv(cfg).Convert(d)
			fresh[i] = append([]byte{}, out...)
		}
		s := r.Sub("url-pairs/"+cn, fmt.Sprintf("every ordered pair of %d URL-bearing documents (%d constructs × %d destinations: harmless, every dangerous scheme, allowed and refused data: media types, other letter cases) converted one after the other on one new instance under %s: both outputs equal the fresh-instance outputs", len(docs), ntmpl, nurl, cn))
		s.Planned = int64(len(docs) * len(docs))
		s.Bound = fmt.Sprintf("%d × %d ordered pairs", len(docs), len(docs))
		core.ForEachIndex(len(docs), core.Workers(), func(w int) func(int) {
			return func(i int) {
				for j := range docs {
					cv := core.NewConv(cfg)
					for step, k := range []int{i, j} {
						out, err, pan := cv.Convert(docs[k])
						if pan != nil || err != nil || !bytes.Equal(out, fresh[k]) {
							hist := []string{"Convert(" + core.Q(docs[i]) + ")"}
							if step == 1 {
								hist = append(hist, "Convert("+core.Q(docs[j])+")")
							}
							s.Violate("history-dependent:url-pairs", cfg.String(), docs[k], hist, fmt.Sprintf("step %d differs from the same conversion on a fresh instance (panic=%v err=%v)", step, pan, err), string(fresh[k]), string(out))
							break
						}
					}
					s.Evals.Add(1)
				}
				s.Distinct(core.Hash(fresh[i]))
				if i%(len(docs)/5+1) == 0 {
					s.AddSample([]string{core.Q(docs[i]), core.Q(docs[(i*7+1)%len(docs)])})
				}
			}
		}, r.Expired)
		s.States.Store(int64(len(docs) * len(docs)))
		s.Transitions.Store(2 * s.Evals.Load())
		s.Done()
	}
}

func runC06(r *core.Run) {
	runC06URLPairs(r)
	runC06Order(r)
	runC06EntryPoints(r)
	runC06Fresh(r)
	depth := core.Pick(r, 3, 4)
	ops := c06Ops(len(c06Docs))
	for _, cn := range []string{"core", "gfm", "all+autoid+attr", "all+cjk+autoid+attr+xhtml+align=style", "custom+autoid+attr+unsafe"} {
		cfg := core.MustCfg(cn)
		fresh := make([][]byte, len(c06Docs))
		for i, d := range c06Docs {
			out, _, _ := core.NewConv(cfg).Convert([]byte(d))
			fresh[i] = append([]byte{}, out...)
		}
		s := r.Sub("histories/"+cn, fmt.Sprintf("every sequence of ≤%d operations from {Convert(d), Parse(d) for %d leak-prone documents, Render(tree_i) for i<3, Convert(d) into a writer failing at byte 0 or 7 for d<8} on one new Markdown instance under %s; every result compared with the same operation on a fresh instance; state = history (a correct implementation has a single abstract state); distinct = well-formed histories", depth, len(c06Docs), cn))
		s.Bound = fmt.Sprintf("depth=%d ops=%d", depth, len(ops))
		// shard on the first operation
		var total int64 = 0
		p := int64(1)
		for i := 1; i <= depth; i++ {
			p *= int64(len(ops))
			total += p
		}
		s.Planned = 0
		core.ForEachIndex(len(ops), core.Workers(), func(w int) func(int) {
			return func(first int) {
				hist := make([]c06Op, 0, depth)
				var rec func()
				rec = func() {
					if c06History(s, cfg, hist, fresh) {
						s.Evals.Add(int64(len(hist)))
						s.States.Add(1)
						s.Distinct(core.Hash([]byte(fmt.Sprint(hist))))
						if s.States.Load()%5000 == 1 {
							s.AddSample(histStrings(hist))
						}
					} else {
						return // extensions of an ill-formed history are ill-formed at the same step
					}
					if len(hist) == depth {
						return
					}
					for _, o := range ops {
						hist = append(hist, o)
						rec()
						hist = hist[:len(hist)-1]
					}
				}
				hist = append(hist, ops[first])
				rec()
			}
		}, r.Expired)
		s.Extra["sequences_in_bound"] = total
		s.Transitions.Store(s.Evals.Load())
		s.Done()
	}

	// (b) a long-lived instance fed every word in order vs. a fresh instance per word; Convert vs Parse+Render; re-render
	type job struct {
		name   string
		toks   []string
		nq, nt int
		cfg    string
	}
	for _, j := range []job{
		{"block", core.ABlock, 4, 5, "all+autoid+attr"},
		{"ext", core.AExt, 4, 5, "all+autoid+attr"},
		{"ext", core.AExt, 4, 5, "gfm+xhtml"},
		{"inline", core.AInline, 3, 4, "all+cjk+autoid"},
	} {
		cfg := core.MustCfg(j.cfg)
		wordsSub(r, fmt.Sprintf("longlived-%s/%s", j.name, j.cfg),
			"a long-lived instance converts every word of its shard in sequence: Convert == Parse+Render == second and third Render of the same tree == Convert on a brand-new instance; distinct = output digest of outputs with ≥2 tags",
			j.toks, core.Pick(r, j.nq, j.nt), func(s *core.Sub, w int) func([]byte) uint64 {
				long := core.NewConv(cfg)
				var o1 []byte
				return func(word []byte) uint64 {
					out, ok := mustConvert(s, long, word)
					if !ok {
						return 0
					}
					o1 = append(o1[:0], out...)
					fr, ok := mustConvert(s, core.NewConv(cfg), word)
					if ok && !bytes.Equal(fr, o1) {
						s.Violate("longlived!=fresh", cfg.String(), word, nil, "a long-used instance renders this source differently from a fresh one", string(fr), string(o1))
					}
					doc, pan := long.Parse(word)
					if pan != nil {
						s.Violate("parse-panic", cfg.String(), word, nil, fmt.Sprint(pan), "", "")
						return 0
					}
					for k := 1; k <= 3; k++ {
						o2, err, pan := long.Render(word, doc)
						if pan != nil || err != nil {
							s.Violate("render-failed", cfg.String(), word, nil, fmt.Sprint(pan, err), "", "")
							break
						}
						if !bytes.Equal(o1, o2) {
							s.Violate(fmt.Sprintf("render#%d!=convert:%s", k, lastBlockKind(long, word)), cfg.String(), word, nil,
								fmt.Sprintf("render number %d of the same tree differs from Convert", k), string(o1), string(o2))
							break
						}
					}
					s.Evals.Add(6)
					if bytes.Count(o1, []byte("<")) >= 2 {
						return core.Hash(o1)
					}
					return 0
				}
			})
	}
}

func replayC06(r *core.Run, v *core.Violation) {
	fmt.Println("C06 replays: re-run ./run.sh C06 quick (histories are enumerated deterministically); the replay file lists the operation sequence and the generated expectation")
	s := r.Sub(v.Sub, "replay")
	s.Evals.Add(1)
	s.Done()
}

// ---- cross-instance order: output must not depend on which other instances exist or rendered earlier in the process

var c06OrderCfgs = []string{"core+autoid", "core+autoid+attr", "core", "core+xhtml", "core+unsafe", "core+hardwraps", "gfm", "gfm+xhtml", "gfm+unsafe+hardwraps", "all+autoid+attr", "all+autoid+attr+xhtml", "all+cjk", "footnote+xhtml", "typographer", "tasklist", "tasklist+xhtml", "table+align=attr", "table+align=style", "deflist+xhtml", "linkify", "strike"}

var c06OrderDocs = append(append([]string{}, c06Docs...),
	"- [ ] a\n- [x] b\n", "a  \nb\n\n***\n\n![i](/j)\n", "|a|b|\n|:-|-:|\n|c|d|\n", "<div>x</div>\n\n<b>y</b> [l](javascript:z)\n", "# h {#i .c}\n\n# h\n\n# h\n", "x[^1]\n\n[^1]: n\n", "\"q\" -- 'r'...\n", "t\n: d\n", "~~s~~ www.a.bc a@b.cd\n", "漢\n字 a\nb\n", "go/links www.xa.bc ftp://a.bc http/x\n", "a\\ b\n", "# x {#h}\n", "# h\n", "## y {#a}\n\n## z {#a-1}\n", "# a\n\n# a\n")

// instances configured through option channels that core.Cfg does not express: extension options given as parser /
// renderer options next to the package-level extension values, and option-bearing extension constructors
type c06Custom struct {
	name string
	mk   func() goldmark.Markdown
}

var c06Customs = []c06Custom{
	{"linkify+parser-options(go-links)", func() goldmark.Markdown {
		return goldmark.New(goldmark.WithExtensions(extension.Linkify), goldmark.WithParserOptions(
			extension.WithLinkifyAllowedProtocols([]string{"go", "http"}), extension.WithLinkifyURLRegexp(regexp.MustCompile(`^(?:go|http)(?:://|/)[a-z./]+`))))
	}},
	{"gfm+parser-options(www-regexp)", func() goldmark.Markdown {
		return goldmark.New(goldmark.WithExtensions(extension.GFM), goldmark.WithParserOptions(extension.WithLinkifyWWWRegexp(regexp.MustCompile(`^www\.x[a-z.]*`))))
	}},
	{"NewLinkify(protocols)", func() goldmark.Markdown {
		return goldmark.New(goldmark.WithExtensions(extension.NewLinkify(extension.WithLinkifyAllowedProtocols([]string{"ftp"}))))
	}},
	{"NewTypographer(substitutions)", func() goldmark.Markdown {
		return goldmark.New(goldmark.WithExtensions(extension.NewTypographer(extension.WithTypographicSubstitutions(map[extension.TypographicPunctuation]string{extension.LeftDoubleQuote: "<<", extension.RightDoubleQuote: ">>", extension.EnDash: "--"}))))
	}},
	{"typographer+parser-options", func() goldmark.Markdown {
		return goldmark.New(goldmark.WithExtensions(extension.Typographer), goldmark.WithParserOptions(extension.WithTypographicSubstitutions(map[extension.TypographicPunctuation]string{extension.Ellipsis: "..."})))
	}},
	{"NewFootnote(prefix,titles)", func() goldmark.Markdown {
		return goldmark.New(goldmark.WithExtensions(extension.NewFootnote(extension.WithFootnoteIDPrefix("p-"), extension.WithFootnoteLinkTitle("L%%"), extension.WithFootnoteBacklinkClass("bk"))))
	}},
	{"footnote+renderer-options", func() goldmark.Markdown {
		return goldmark.New(goldmark.WithExtensions(extension.Footnote), goldmark.WithRendererOptions(extension.WithFootnoteBacklinkHTML("^"), extension.WithFootnoteIDPrefix("q-")))
	}},
	{"NewTable(style)+xhtml", func() goldmark.Markdown {
		return goldmark.New(goldmark.WithExtensions(extension.NewTable(extension.WithTableCellAlignMethod(extension.TableCellAlignStyle))), goldmark.WithRendererOptions(html.WithXHTML()))
	}},
	{"table+renderer-options(attr)", func() goldmark.Markdown {
		return goldmark.New(goldmark.WithExtensions(extension.Table), goldmark.WithRendererOptions(extension.WithTableCellAlignMethod(extension.TableCellAlignAttribute)))
	}},
	{"gfm+cjk(css3)+escaped-space", func() goldmark.Markdown {
		return goldmark.New(goldmark.WithExtensions(extension.GFM, extension.NewCJK(extension.WithEastAsianLineBreaks(extension.EastAsianLineBreaksCSS3Draft), extension.WithEscapedSpace())))
	}},
	{"default-instance-like", func() goldmark.Markdown { return goldmark.New() }},
	{"gfm-again", func() goldmark.Markdown { return goldmark.New(goldmark.WithExtensions(extension.GFM)) }},
}

func c06OrderNames() []string {
	names := append([]string{}, c06OrderCfgs...)
	for _, c := range c06Customs {
		names = append(names, c.name)
	}
	return names
}

func c06OrderNew(i int) goldmark.Markdown {
	if i < len(c06OrderCfgs) {
		return core.MustCfg(c06OrderCfgs[i]).New()
	}
	return c06Customs[i-len(c06OrderCfgs)].mk()
}

// c06Worker: vcheck C06 --worker order <perm>. Builds the instances in the given order, converts every document on each
// (pass 0), then converts everything again on the now long-used instances (pass 1), and prints one digest per
// (configuration, document, pass).
func c06Worker(args []string) int {
	if len(args) < 2 || args[0] != "order" {
		return 2
	}
	n := len(c06OrderNames())
	order := make([]int, n)
	for i := range order {
		switch args[1] {
		case "reverse":
			order[i] = n - 1 - i
		case "rotate":
			order[i] = (i + n/2) % n
		case "interleave":
			order[i] = (i*7 + 3) % n
		default:
			order[i] = i
		}
	}
	convs := make([]*core.Conv, n)
	for pass := 0; pass < 2; pass++ {
		for _, ci := range order {
			if convs[ci] == nil {
				convs[ci] = &core.Conv{MD: c06OrderNew(ci)}
			}
			for dj := range c06OrderDocs {
				di := dj
				if args[1] == "reverse" || args[1] == "interleave" {
					di = len(c06OrderDocs) - 1 - dj // the documents, too, come in another order
				}
				d := c06OrderDocs[di]
				out, err, pan := convs[ci].Convert([]byte(d))
				if pan != nil || err != nil {
					fmt.Printf("%d %d %d FAIL %v %v\n", ci, di, pass, pan, err)
					continue
				}
				fmt.Printf("%d %d %d %016x %s\n", ci, di, pass, core.Hash(out), strconv.Quote(string(out)))
			}
		}
	}
	return 0
}

func runC06Order(r *core.Run) {
	s := r.Sub("cross-instance-order", fmt.Sprintf("four fresh processes each build %d differently configured instances in a different order (as listed, reversed, rotated by half, stride 7) and convert %d documents on each (in listed or reversed document order), twice (pass 2 = every instance long-used and every other instance already used): the bytes for (configuration, document) must be identical in every process and both passes — output may not depend on which other instances exist or rendered first", len(c06OrderNames()), len(c06OrderDocs)))
	exe, _ := os.Executable()
	names := c06OrderNames()
	perms := []string{"identity", "reverse", "rotate", "interleave"}
	type key struct{ c, d int }
	ref := map[key]string{}
	refFrom := map[key]string{}
	for _, pm := range perms {
		cmd := exec.Command(exe, "C06", "--worker", "order", pm)
		out, err := cmd.Output()
		core.Progress.Add(1)
		if err != nil {
			s.Incomplete("worker failed: " + err.Error())
			continue
		}
		for _, ln := range strings.Split(strings.TrimSpace(string(out)), "\n") {
			f := strings.SplitN(ln, " ", 5)
			if len(f) < 5 {
				continue
			}
			ci, _ := strconv.Atoi(f[0])
			di, _ := strconv.Atoi(f[1])
			k := key{ci, di}
			s.Evals.Add(1)
			val := f[3] + " " + f[4]
			if prev, ok := ref[k]; !ok {
				ref[k], refFrom[k] = val, pm+"/pass"+f[2]
			} else if prev != val {
				a, _ := strconv.Unquote(strings.SplitN(prev, " ", 2)[1])
				b, _ := strconv.Unquote(strings.SplitN(val, " ", 2)[1])
				s.Violate("output-depends-on-other-instances:"+names[ci], names[ci], []byte(c06OrderDocs[di]), nil,
					fmt.Sprintf("configuration %s renders this document differently in process order %q pass %s than in %s", names[ci], pm, f[2], refFrom[k]), a, b)
			}
			s.Distinct(core.Hash([]byte(val)))
		}
	}
	s.States.Store(int64(len(ref)))
	s.Transitions.Store(s.Evals.Load())
	s.Bound = fmt.Sprintf("%d orders × %d configurations × %d documents × 2 passes", len(perms), len(names), len(c06OrderDocs))
	s.AddSample("order reverse: tasklist+xhtml renders before tasklist")
	s.Done()
}
