package props

import (
	"bytes"
	"fmt"

	"github.com/yuin/goldmark/ast"

	"verif/internal/core"
)

func init() {
	register(&Check{ID: "C06", QuickS: 200, ThorS: 1800, Run: runC06, Replay: replayC06})
}

// leak-prone documents: each one carries per-document state that must not survive into the next conversion
var c06Docs = []string{
	"[foo]: /u \"t\"\n\n[foo] [bar]\n",
	"[bar]: /other\n\n[foo] [bar]\n",
	"# a\n\n# a\n\n## a-1\n",
	"a\n===\n\n# a\n",
	"x[^1] y[^2]\n\n[^1]: one\n[^2]: two\n",
	"x[^2]\n\n[^2]: only\n",
	"\"open 'single\n\nnext \"para\" 'q'\n",
	"|a|b|c|\n|:-|-:|:-:|\n|1|2|3|\n",
	"```go\nx\n",
	"- \n\n\n  a\n- b\n",
	"a\n-\n\nb\n--\n",
	"# h {#id .c k=v}\n\nh2 {#id}\n--\n",
	"- [ ] t\n- [x] u\n",
	"term\n: def\n\nt2\n: d2\n",
	"&amp; &#35; www.a.bc http://a.bc a@b.cd ~~s~~\n",
}

type c06Op struct {
	kind byte // 'C' convert, 'P' parse, 'R' render tree #arg
	arg  int
}

func (o c06Op) String() string {
	switch o.kind {
	case 'C':
		return fmt.Sprintf("Convert(doc%d)", o.arg)
	case 'P':
		return fmt.Sprintf("Parse(doc%d)", o.arg)
	}
	return fmt.Sprintf("Render(tree%d)", o.arg)
}

func c06Ops(ndocs int) []c06Op {
	var ops []c06Op
	for d := 0; d < ndocs; d++ {
		ops = append(ops, c06Op{'C', d})
	}
	for d := 0; d < ndocs; d++ {
		ops = append(ops, c06Op{'P', d})
	}
	for i := 0; i < 3; i++ {
		ops = append(ops, c06Op{'R', i})
	}
	return ops
}

// c06History runs one history on a new instance and compares every result with the fresh-instance result.
func c06History(s *core.Sub, cfg core.Cfg, hist []c06Op, fresh [][]byte) (valid bool) {
	cv := core.NewConv(cfg)
	var trees []ast.Node
	var treeDoc []int
	for i, op := range hist {
		var out []byte
		var err error
		var pan any
		want := -1
		switch op.kind {
		case 'C':
			out, err, pan = cv.Convert([]byte(c06Docs[op.arg]))
			want = op.arg
		case 'P':
			var doc ast.Node
			doc, pan = cv.Parse([]byte(c06Docs[op.arg]))
			trees = append(trees, doc)
			treeDoc = append(treeDoc, op.arg)
		case 'R':
			if op.arg >= len(trees) {
				return false // not a well-formed history
			}
			out, err, pan = cv.Render([]byte(c06Docs[treeDoc[op.arg]]), trees[op.arg])
			want = treeDoc[op.arg]
		}
		if pan != nil || err != nil {
			s.Violate("failed:"+op.String(), cfg.String(), nil, histStrings(hist[:i+1]), fmt.Sprint("panic=", pan, " err=", err), "", "")
			return true
		}
		if want >= 0 && !bytes.Equal(out, fresh[want]) {
			s.Violate(fmt.Sprintf("history-dependent:%c:doc%d", op.kind, want), cfg.String(), nil, histStrings(hist[:i+1]),
				fmt.Sprintf("step %d %s differs from the same operation on a fresh instance; doc=%s", i, op, core.Q([]byte(c06Docs[want]))), string(fresh[want]), string(out))
			return true
		}
	}
	return true
}

func histStrings(h []c06Op) []string {
	out := make([]string, len(h))
	for i, o := range h {
		out[i] = o.String()
	}
	return out
}

func runC06(r *core.Run) {
	depth := core.Pick(r, 3, 4)
	ops := c06Ops(len(c06Docs))
	for _, cn := range []string{"core", "gfm", "all+autoid+attr", "all+cjk+autoid+attr+xhtml+align=style"} {
		cfg := core.MustCfg(cn)
		fresh := make([][]byte, len(c06Docs))
		for i, d := range c06Docs {
			out, _, _ := core.NewConv(cfg).Convert([]byte(d))
			fresh[i] = append([]byte{}, out...)
		}
		s := r.Sub("histories/"+cn, fmt.Sprintf("every sequence of ≤%d operations from {Convert(d), Parse(d) for %d leak-prone documents, Render(tree_i) for i<3} on one new Markdown instance under %s; every result compared with the same operation on a fresh instance; state = history (a correct implementation has a single abstract state); distinct = well-formed histories", depth, len(c06Docs), cn))
		s.Bound = fmt.Sprintf("depth=%d ops=%d", depth, len(ops))
		// shard on the first operation
		var total int64 = 0
		p := int64(1)
		for i := 1; i <= depth; i++ {
			p *= int64(len(ops))
			total += p
		}
		s.Planned = 0
		core.ForEachIndex(len(ops), core.Workers(), func(w int) func(int) {
			return func(first int) {
				hist := make([]c06Op, 0, depth)
				var rec func()
				rec = func() {
					if c06History(s, cfg, hist, fresh) {
						s.Evals.Add(int64(len(hist)))
						s.States.Add(1)
						s.Distinct(core.Hash([]byte(fmt.Sprint(hist))))
						if s.States.Load()%5000 == 1 {
							s.AddSample(histStrings(hist))
						}
					} else {
						return // extensions of an ill-formed history are ill-formed at the same step
					}
					if len(hist) == depth {
						return
					}
					for _, o := range ops {
						hist = append(hist, o)
						rec()
						hist = hist[:len(hist)-1]
					}
				}
				hist = append(hist, ops[first])
				rec()
			}
		}, r.Expired)
		s.Extra["sequences_in_bound"] = total
		s.Transitions.Store(s.Evals.Load())
		s.Done()
	}

	// (b) a long-lived instance fed every word in order vs. a fresh instance per word; Convert vs Parse+Render; re-render
	type job struct {
		name   string
		toks   []string
		nq, nt int
		cfg    string
	}
	for _, j := range []job{
		{"block", core.ABlock, 4, 5, "all+autoid+attr"},
		{"ext", core.AExt, 4, 5, "all+autoid+attr"},
		{"ext", core.AExt, 4, 5, "gfm+xhtml"},
		{"inline", core.AInline, 3, 4, "all+cjk+autoid"},
	} {
		cfg := core.MustCfg(j.cfg)
		wordsSub(r, fmt.Sprintf("longlived-%s/%s", j.name, j.cfg),
			"a long-lived instance converts every word of its shard in sequence: Convert == Parse+Render == second and third Render of the same tree == Convert on a brand-new instance; distinct = output digest of outputs with ≥2 tags",
			j.toks, core.Pick(r, j.nq, j.nt), func(s *core.Sub, w int) func([]byte) uint64 {
				long := core.NewConv(cfg)
				var o1 []byte
				return func(word []byte) uint64 {
					out, ok := mustConvert(s, long, word)
					if !ok {
						return 0
					}
					o1 = append(o1[:0], out...)
					fr, ok := mustConvert(s, core.NewConv(cfg), word)
					if ok && !bytes.Equal(fr, o1) {
						s.Violate("longlived!=fresh", cfg.String(), word, nil, "a long-used instance renders this source differently from a fresh one", string(fr), string(o1))
					}
					doc, pan := long.Parse(word)
					if pan != nil {
						s.Violate("parse-panic", cfg.String(), word, nil, fmt.Sprint(pan), "", "")
						return 0
					}
					for k := 1; k <= 3; k++ {
						o2, err, pan := long.Render(word, doc)
						if pan != nil || err != nil {
							s.Violate("render-failed", cfg.String(), word, nil, fmt.Sprint(pan, err), "", "")
							break
						}
						if !bytes.Equal(o1, o2) {
							s.Violate(fmt.Sprintf("render#%d!=convert:%s", k, lastBlockKind(long, word)), cfg.String(), word, nil,
								fmt.Sprintf("render number %d of the same tree differs from Convert", k), string(o1), string(o2))
							break
						}
					}
					s.Evals.Add(6)
					if bytes.Count(o1, []byte("<")) >= 2 {
						return core.Hash(o1)
					}
					return 0
				}
			})
	}
}

func replayC06(r *core.Run, v *core.Violation) {
	fmt.Println("C06 replays: re-run ./run.sh C06 quick (histories are enumerated deterministically); the replay file lists the operation sequence and the generated expectation")
	s := r.Sub(v.Sub, "replay")
	s.Evals.Add(1)
	s.Done()
}
