package props

import (
	"errors"
	"fmt"
	"sort"
	"strings"
	"sync"

	"github.com/yuin/goldmark/ast"

	"verif/internal/core"
)

func init() {
	register(&Check{ID: "C13", QuickS: 200, ThorS: 1800, Run: runC13, Replay: replayC13})
}

// ---- pool of real nodes

type c13Pool struct {
	nodes []ast.Node
	id    map[ast.Node]int
}

var c13Names = []string{"P0", "P1", "M0", "P2", "M1", "M2", "M3"}

// c13Decor is a Node implementation that is not built by embedding ast.BaseNode: a decorator that embeds the Node
// interface of another node and overrides its kind (the statement speaks of "any nodes").
type c13Decor struct{ ast.Node }

var c13DecorKind = ast.NewNodeKind("C13Decorated")

func (d *c13Decor) Kind() ast.NodeKind { return c13DecorKind }

func newC13Pool(n int) *c13Pool {
	all := []ast.Node{ast.NewParagraph(), ast.NewBlockquote(), ast.NewEmphasis(1), ast.NewListItem(0), ast.NewText(), &c13Decor{ast.NewCodeSpan()}, ast.NewString([]byte("s"))}
	p := &c13Pool{nodes: all[:n], id: map[ast.Node]int{}}
	for i, x := range p.nodes {
		p.id[x] = i
	}
	return p
}

// the first c13Parents nodes may act as parents (blocks of different concrete types and one inline container)
var c13Parents = 3

// ---- reference model: plain ordered lists of children

type c13Model struct {
	kids   [][]int
	parent []int
}

func newC13Model(n int) *c13Model {
	m := &c13Model{kids: make([][]int, n), parent: make([]int, n)}
	for i := range m.parent {
		m.parent[i] = -1
	}
	return m
}

func (m *c13Model) detach(c int) {
	p := m.parent[c]
	if p < 0 {
		return
	}
	k := m.kids[p]
	for i, x := range k {
		if x == c {
			m.kids[p] = append(append([]int{}, k[:i]...), k[i+1:]...)
			break
		}
	}
	m.parent[c] = -1
}

func (m *c13Model) index(p, c int) int {
	for i, x := range m.kids[p] {
		if x == c {
			return i
		}
	}
	return -1
}

func (m *c13Model) insertAt(p, i, c int) {
	k := m.kids[p]
	k = append(k[:i:i], append([]int{c}, k[i:]...)...)
	m.kids[p] = k
	m.parent[c] = p
}

func (m *c13Model) isAncestorOrSelf(a, n int) bool {
	for x := n; x >= 0; x = m.parent[x] {
		if x == a {
			return true
		}
	}
	return false
}

func (m *c13Model) key() string {
	var b strings.Builder
	for p, k := range m.kids {
		fmt.Fprintf(&b, "%d:%v;", p, k)
	}
	return b.String()
}

type c13Op struct {
	Kind string `json:"op"`
	P    int    `json:"parent"`
	Ref  int    `json:"ref"` // -1 = nil
	C    int    `json:"child"`
}

func (o c13Op) String() string {
	nm := func(i int) string {
		if i < 0 {
			return "nil"
		}
		return c13Names[i]
	}
	switch o.Kind {
	case "Append", "Remove":
		return fmt.Sprintf("%s.%sChild(%s)", nm(o.P), o.Kind, nm(o.C))
	case "InsertBefore", "InsertAfter", "Replace":
		k := o.Kind
		if k == "Replace" {
			k = "ReplaceChild"
		}
		return fmt.Sprintf("%s.%s(%s, %s)", nm(o.P), k, nm(o.Ref), nm(o.C))
	case "RemoveChildren":
		return fmt.Sprintf("%s.RemoveChildren()", nm(o.P))
	}
	return fmt.Sprintf("%s.SortChildren(%s)", nm(o.P), o.Kind)
}

// legal says whether the call respects the stated precondition in model state m.
func (o c13Op) legal(m *c13Model) bool {
	switch o.Kind {
	case "Append":
		return !m.isAncestorOrSelf(o.C, o.P)
	case "InsertBefore", "InsertAfter":
		return o.C != o.Ref && !m.isAncestorOrSelf(o.C, o.P)
	case "Replace":
		return o.Ref >= 0 && o.C != o.Ref && !m.isAncestorOrSelf(o.C, o.P)
	}
	return true
}

func (o c13Op) applyModel(m *c13Model) {
	switch o.Kind {
	case "Append":
		m.detach(o.C)
		m.insertAt(o.P, len(m.kids[o.P]), o.C)
	case "InsertBefore":
		if o.Ref < 0 || m.parent[o.Ref] != o.P { // nil or foreign reference = append
			m.detach(o.C)
			m.insertAt(o.P, len(m.kids[o.P]), o.C)
			return
		}
		m.detach(o.C)
		m.insertAt(o.P, m.index(o.P, o.Ref), o.C)
	case "InsertAfter":
		if o.Ref < 0 || m.parent[o.Ref] != o.P {
			m.detach(o.C)
			m.insertAt(o.P, len(m.kids[o.P]), o.C)
			return
		}
		m.detach(o.C)
		m.insertAt(o.P, m.index(o.P, o.Ref)+1, o.C)
	case "Replace":
		if m.parent[o.Ref] != o.P { // foreign: append, foreign node untouched
			m.detach(o.C)
			m.insertAt(o.P, len(m.kids[o.P]), o.C)
			return
		}
		m.detach(o.C)
		m.insertAt(o.P, m.index(o.P, o.Ref), o.C)
		m.detach(o.Ref)
	case "Remove":
		if m.parent[o.C] == o.P {
			m.detach(o.C)
		}
	case "RemoveChildren":
		for _, c := range m.kids[o.P] {
			m.parent[c] = -1
		}
		m.kids[o.P] = nil
	case "asc":
		k := append([]int{}, m.kids[o.P]...)
		sort.Ints(k)
		m.kids[o.P] = k
	case "desc":
		k := append([]int{}, m.kids[o.P]...)
		sort.Sort(sort.Reverse(sort.IntSlice(k)))
		m.kids[o.P] = k
	}
}

func (o c13Op) applyReal(pl *c13Pool) (pan any) {
	defer func() { pan = recover() }()
	p := pl.nodes[o.P]
	var ref, c ast.Node
	if o.Ref >= 0 {
		ref = pl.nodes[o.Ref]
	}
	if o.C >= 0 {
		c = pl.nodes[o.C]
	}
	switch o.Kind {
	case "Append":
		p.AppendChild(p, c)
	case "InsertBefore":
		p.InsertBefore(p, ref, c)
	case "InsertAfter":
		p.InsertAfter(p, ref, c)
	case "Replace":
		p.ReplaceChild(p, ref, c)
	case "Remove":
		p.RemoveChild(p, c)
	case "RemoveChildren":
		p.RemoveChildren(p)
	case "asc":
		p.SortChildren(func(a, b ast.Node) int { return pl.id[a] - pl.id[b] })
	case "desc":
		p.SortChildren(func(a, b ast.Node) int { return pl.id[b] - pl.id[a] })
	}
	return nil
}

func c13AllOps(n int) []c13Op {
	var ops []c13Op
	for p := 0; p < c13Parents && p < n; p++ {
		for c := 0; c < n; c++ {
			ops = append(ops, c13Op{"Append", p, -1, c}, c13Op{"Remove", p, -1, c})
			for ref := -1; ref < n; ref++ {
				ops = append(ops, c13Op{"InsertBefore", p, ref, c}, c13Op{"InsertAfter", p, ref, c})
				if ref >= 0 {
					ops = append(ops, c13Op{"Replace", p, ref, c})
				}
			}
		}
		ops = append(ops, c13Op{"RemoveChildren", p, -1, -1}, c13Op{"asc", p, -1, -1}, c13Op{"desc", p, -1, -1})
	}
	return ops
}

// compare checks every observable of every real node against the model.
func c13Compare(pl *c13Pool, m *c13Model) string {
	nm := func(x ast.Node) string {
		if x == nil {
			return "nil"
		}
		if i, ok := pl.id[x]; ok {
			return c13Names[i]
		}
		return "?"
	}
	at := func(k []int, i int) string {
		if i < 0 || i >= len(k) {
			return "nil"
		}
		return c13Names[k[i]]
	}
	for i, x := range pl.nodes {
		k := m.kids[i]
		wantParent := "nil"
		if m.parent[i] >= 0 {
			wantParent = c13Names[m.parent[i]]
		}
		if got := nm(x.Parent()); got != wantParent {
			return fmt.Sprintf("%s.Parent()=%s, model %s", c13Names[i], got, wantParent)
		}
		if x.ChildCount() != len(k) {
			return fmt.Sprintf("%s.ChildCount()=%d, model %d", c13Names[i], x.ChildCount(), len(k))
		}
		if x.HasChildren() != (len(k) > 0) {
			return fmt.Sprintf("%s.HasChildren()=%v, model %v", c13Names[i], x.HasChildren(), len(k) > 0)
		}
		if got := nm(x.FirstChild()); got != at(k, 0) {
			return fmt.Sprintf("%s.FirstChild()=%s, model %s", c13Names[i], got, at(k, 0))
		}
		if got := nm(x.LastChild()); got != at(k, len(k)-1) {
			return fmt.Sprintf("%s.LastChild()=%s, model %s", c13Names[i], got, at(k, len(k)-1))
		}
		// forward and backward chains
		j := 0
		for c := x.FirstChild(); c != nil; c = c.NextSibling() {
			if j >= len(k) || nm(c) != c13Names[k[j]] {
				return fmt.Sprintf("forward chain of %s differs from model %v at position %d (%s)", c13Names[i], k, j, nm(c))
			}
			j++
			if j > len(pl.nodes)+1 {
				return "forward chain of " + c13Names[i] + " does not terminate"
			}
		}
		if j != len(k) {
			return fmt.Sprintf("forward chain of %s has %d nodes, model %d", c13Names[i], j, len(k))
		}
		j = len(k) - 1
		for c := x.LastChild(); c != nil; c = c.PreviousSibling() {
			if j < 0 || nm(c) != c13Names[k[j]] {
				return fmt.Sprintf("backward chain of %s differs from model %v", c13Names[i], k)
			}
			j--
			if j < -len(pl.nodes)-1 {
				return "backward chain of " + c13Names[i] + " does not terminate"
			}
		}
		if j != -1 {
			return fmt.Sprintf("backward chain of %s is short", c13Names[i])
		}
		// sibling links of a detached node
		if m.parent[i] < 0 && (x.NextSibling() != nil || x.PreviousSibling() != nil) {
			return fmt.Sprintf("detached %s still has sibling links", c13Names[i])
		}
	}
	return ""
}

func opStrings(ops []c13Op) []string {
	out := make([]string, len(ops))
	for i, o := range ops {
		out[i] = o.String()
	}
	return out
}

// ---- walk

var errWalk = errors.New("verif: walker error")

type walkVisit struct {
	node     int
	entering bool
}

// modelWalk computes the expected visit sequence and returned error under a script (call index -> answer).
// answers: 1 SkipChildren, 2 Stop, 3 error.
func modelWalk(m *c13Model, root int, script map[int]int) (visits []walkVisit, err error) {
	stopped := false
	var rec func(n int)
	rec = func(n int) {
		a := script[len(visits)]
		visits = append(visits, walkVisit{n, true})
		if a == 3 {
			err, stopped = errWalk, true
			return
		}
		if a == 2 {
			stopped = true
			return
		}
		if a != 1 {
			for _, c := range m.kids[n] {
				rec(c)
				if stopped {
					return
				}
			}
		}
		a = script[len(visits)]
		visits = append(visits, walkVisit{n, false})
		if a == 3 {
			err, stopped = errWalk, true
		} else if a == 2 {
			stopped = true
		}
	}
	rec(root)
	return
}

func realWalk(pl *c13Pool, root int, script map[int]int) (visits []walkVisit, err error, pan any) {
	defer func() { pan = recover() }()
	call := 0
	err = ast.Walk(pl.nodes[root], func(n ast.Node, entering bool) (ast.WalkStatus, error) {
		a := script[call]
		call++
		visits = append(visits, walkVisit{pl.id[n], entering})
		if len(visits) > 64 {
			return ast.WalkStop, errors.New("runaway walk")
		}
		switch a {
		case 1:
			if entering {
				return ast.WalkSkipChildren, nil
			}
		case 2:
			return ast.WalkStop, nil
		case 3:
			return ast.WalkContinue, errWalk
		}
		return ast.WalkContinue, nil
	})
	return
}

func c13Walks(s *core.Sub, pl *c13Pool, m *c13Model, path []c13Op, maxDev int) int64 {
	var n int64
	check := func(root int, script map[int]int) int {
		want, werr := modelWalk(m, root, script)
		got, gerr, pan := realWalk(pl, root, script)
		n++
		if pan != nil || fmt.Sprint(want) != fmt.Sprint(got) || werr != gerr {
			s.Violate("walk-differs-from-model", "", nil, map[string]any{"build": opStrings(path), "root": c13Names[root], "script(call->answer 1=skip 2=stop 3=error)": fmt.Sprint(script)},
				fmt.Sprintf("Walk visits %v err=%v panic=%v; model %v err=%v", got, gerr, pan, want, werr), fmt.Sprint(want), fmt.Sprint(got))
		}
		return len(want)
	}
	for root := range pl.nodes {
		l0 := check(root, map[int]int{})
		if maxDev < 1 {
			continue
		}
		full, _ := modelWalk(m, root, map[int]int{})
		for i := 0; i < l0; i++ {
			for a := 1; a <= 3; a++ {
				if a == 1 && !full[i].entering {
					continue
				}
				sc := map[int]int{i: a}
				l1 := check(root, sc)
				if maxDev < 2 {
					continue
				}
				v1, _ := modelWalk(m, root, sc)
				for j := i + 1; j < l1; j++ {
					for b := 1; b <= 3; b++ {
						if b == 1 && !v1[j].entering {
							continue
						}
						check(root, map[int]int{i: a, j: b})
					}
				}
			}
		}
	}
	return n
}

// ---- BFS

// runC13Wide: one parent with EVERY number of children 0..M, grown by each insertion call and shrunk again by each removal
// call: the list-of-children model is a counter here. ChildCount and HasChildren are compared after every call; at every
// power of two (±1) the whole child list is walked in both directions and every Parent link checked. Anything that
// stores the count in a narrower type, or batches the children, crosses its threshold at some n.
func runC13Wide(r *core.Run) {
	m := core.Pick(r, 300000, 4300000)
	s := r.Sub("wide-parent", fmt.Sprintf("one parent with every child count 0..%d, grown by AppendChild / InsertBefore(first) / InsertAfter(last) / InsertBefore(nil) / alternating ends and shrunk by RemoveChild(first) / RemoveChild(last) / ReplaceChild + RemoveChild, finally RemoveChildren: ChildCount and HasChildren after every call; at every power of two ±1 the sibling chain in both directions, Parent links and Walk's visit count", m))
	threshold := func(i int) bool {
		for k := 1; k <= 30; k++ {
			p := 1 << k
			if i == p-1 || i == p || i == p+1 {
				return true
			}
		}
		return i == m
	}
	growers := []string{"AppendChild", "InsertBefore(first)", "InsertAfter(last)", "InsertBefore(nil)", "alternating ends"}
	shrinkers := []string{"RemoveChild(first)", "RemoveChild(last)", "ReplaceChild(last)+RemoveChild(first)"}
	type job struct{ g, sh int }
	var jobs []job
	for g := range growers {
		jobs = append(jobs, job{g, g % len(shrinkers)})
	}
	core.ForEachIndex(len(jobs), core.Workers(), func(w int) func(int) {
		return func(ji int) {
			j := jobs[ji]
			hist := []string{"p := ast.NewParagraph()", "grow by " + growers[j.g], "shrink by " + shrinkers[j.sh]}
			p := ast.NewParagraph()
			bad := func(sig string, i int, detail string) {
				s.Violate("tree-differs-from-model:wide:"+sig, "", nil, append(append([]string{}, hist...), fmt.Sprintf("at %d children", i)), detail, "", "")
			}
			full := func(i int) bool {
				n := 0
				var prev ast.Node
				for c := p.FirstChild(); c != nil; c = c.NextSibling() {
					if c.Parent() != ast.Node(p) || c.PreviousSibling() != prev {
						bad("links", i, "a child's Parent or PreviousSibling link is wrong")
						return false
					}
					prev = c
					n++
					if n > i+2 {
						break
					}
				}
				if n != i || p.LastChild() != prev {
					bad("forward-chain", i, fmt.Sprintf("FirstChild/NextSibling chain has %d nodes, LastChild consistent=%v", n, p.LastChild() == prev))
					return false
				}
				visits := 0
				_ = ast.Walk(p, func(n ast.Node, entering bool) (ast.WalkStatus, error) {
					if entering {
						visits++
					}
					return ast.WalkContinue, nil
				})
				if visits != i+1 {
					bad("walk", i, fmt.Sprintf("Walk entered %d nodes, expected %d", visits, i+1))
					return false
				}
				return true
			}
			check := func(i int) bool {
				s.Evals.Add(1)
				if p.ChildCount() != i || p.HasChildren() != (i > 0) {
					bad("count", i, fmt.Sprintf("ChildCount()=%d HasChildren()=%v with %d children", p.ChildCount(), p.HasChildren(), i))
					return false
				}
				if threshold(i) {
					s.States.Add(1)
					return full(i)
				}
				return true
			}
			ok := check(0)
			for i := 1; i <= m && ok; i++ {
				c := ast.NewText()
				switch j.g {
				case 0:
					p.AppendChild(p, c)
				case 1:
					p.InsertBefore(p, p.FirstChild(), c)
				case 2:
					p.InsertAfter(p, p.LastChild(), c)
				case 3:
					p.InsertBefore(p, nil, c)
				case 4:
					if i%2 == 0 {
						p.InsertBefore(p, p.FirstChild(), c)
					} else {
						p.AppendChild(p, c)
					}
				}
				ok = check(i)
			}
			for i := m - 1; i >= 0 && ok; i-- {
				switch j.sh {
				case 0:
					p.RemoveChild(p, p.FirstChild())
				case 1:
					p.RemoveChild(p, p.LastChild())
				case 2:
					p.ReplaceChild(p, p.LastChild(), ast.NewText())
					p.RemoveChild(p, p.FirstChild())
				}
				ok = check(i)
				if i == m/2 && ok {
					p.RemoveChildren(p)
					ok = check(0)
					break
				}
			}
			s.Distinct(core.Hash([]byte(growers[j.g])))
		}
	}, r.Expired)
	s.AddSample([]string{"p := ast.NewParagraph()", "p.AppendChild(p, ast.NewText()) × n, n = 1.." + fmt.Sprint(m), "p.RemoveChild(p, p.FirstChild()) × n/2", "p.RemoveChildren(p)"})
	s.Bound = fmt.Sprintf("child counts 0..%d × %d growth orders", m, len(jobs))
	s.Transitions.Store(s.Evals.Load())
	s.Done()
}

// runC13Deep: chains of EVERY depth 1..maxD (each level one container holding a leaf and the next level): Walk must enter
// and leave every node exactly once, in depth-first order, at any depth; with a walker that answers SkipChildren, Stop or
// an error at one level (every level for small depths, else top / middle / bottom) the visit sequence must be the model's.
func runC13Deep(r *core.Run) {
	maxD := core.Pick(r, 300, 3000)
	s := r.Sub("deep-chains", fmt.Sprintf("for EVERY depth d = 1..%d: a chain of d nested containers (block quotes, list items and emphasis nodes in turn), each holding a text leaf before and after the next level; the unscripted Walk and Walks whose visitor answers SkipChildren / Stop / error on entering, or Stop / error on leaving, the container at one level (every level for d <= 12, else levels 1, d/2, d-1, d): visit sequence and returned error equal the model walk; after a Walk whose visitor panics (recovered by the caller) the next Walk of another tree and of the same tree is unaffected", maxD))
	errX := fmt.Errorf("walker error")
	core.ForEachIndex(maxD, core.Workers(), func(w int) func(int) {
		return func(di int) {
			d := di + 1
			// build
			var conts []ast.Node
			var root ast.Node
			var cur ast.Node
			for l := 0; l < d; l++ {
				var c ast.Node
				switch l % 3 {
				case 0:
					c = ast.NewBlockquote()
				case 1:
					c = ast.NewListItem(0)
				default:
					c = ast.NewEmphasis(1)
				}
				conts = append(conts, c)
				if cur == nil {
					root = c
				} else {
					cur.AppendChild(cur, ast.NewText())
					cur.AppendChild(cur, c)
					cur.AppendChild(cur, ast.NewText())
				}
				cur = c
			}
			cur.AppendChild(cur, ast.NewText())
			// model walk: events as (node, entering)
			type ev struct {
				n  ast.Node
				in bool
			}
			type script struct {
				level  int // -1 none
				onExit bool
				ans    ast.WalkStatus
				err    error
			}
			var model func(n ast.Node, sc script, out *[]ev) (stop bool, err error)
			model = func(n ast.Node, sc script, out *[]ev) (bool, error) {
				*out = append(*out, ev{n, true})
				isTarget := sc.level >= 0 && n == conts[sc.level]
				skip := false
				if isTarget && !sc.onExit {
					if sc.err != nil {
						return true, sc.err
					}
					if sc.ans == ast.WalkStop {
						return true, nil
					}
					skip = sc.ans == ast.WalkSkipChildren
				}
				if !skip {
					for c := n.FirstChild(); c != nil; c = c.NextSibling() {
						if stop, err := model(c, sc, out); stop {
							return true, err
						}
					}
				}
				*out = append(*out, ev{n, false})
				if isTarget && sc.onExit {
					if sc.err != nil {
						return true, sc.err
					}
					if sc.ans == ast.WalkStop {
						return true, nil
					}
				}
				return false, nil
			}
			levels := map[int]bool{}
			if d <= 12 {
				for l := 0; l < d; l++ {
					levels[l] = true
				}
			} else {
				for _, l := range []int{0, d / 2, d - 2, d - 1} {
					levels[l] = true
				}
			}
			scripts := []script{{level: -1}}
			for l := range levels {
				scripts = append(scripts, script{l, false, ast.WalkSkipChildren, nil}, script{l, false, ast.WalkStop, nil}, script{l, false, ast.WalkContinue, errX},
					script{l, true, ast.WalkStop, nil}, script{l, true, ast.WalkContinue, errX})
			}
			for _, sc := range scripts {
				var want []ev
				_, wantErr := model(root, sc, &want)
				var got []ev
				gotErr := ast.Walk(root, func(n ast.Node, entering bool) (ast.WalkStatus, error) {
					got = append(got, ev{n, entering})
					if len(got) > 4*len(want)+16 {
						return ast.WalkStop, nil // runaway
					}
					if sc.level >= 0 && n == conts[sc.level] && entering == !sc.onExit {
						return sc.ans, sc.err
					}
					return ast.WalkContinue, nil
				})
				s.Evals.Add(1)
				same := len(got) == len(want) && gotErr == wantErr
				for i := 0; same && i < len(got); i++ {
					same = got[i] == want[i]
				}
				if !same {
					hist := []string{fmt.Sprintf("chain of depth %d", d), fmt.Sprintf("walker script: level=%d onExit=%v answer=%v err=%v", sc.level, sc.onExit, sc.ans, sc.err)}
					s.Violate("walk-differs-from-model:deep", "", nil, hist, fmt.Sprintf("Walk produced %d events (err=%v), the model %d (err=%v)", len(got), gotErr, len(want), wantErr), "", "")
					return
				}
			}
			// a walker that panics (the caller recovers): the next Walk, of another tree and of this one, is unaffected
			for l := range levels {
				func() {
					defer func() { _ = recover() }()
					_ = ast.Walk(root, func(n ast.Node, entering bool) (ast.WalkStatus, error) {
						if n == conts[l] && entering {
							panic("walker panic")
						}
						return ast.WalkContinue, nil
					})
				}()
				other := ast.NewParagraph()
				other.AppendChild(other, ast.NewText())
				other.AppendChild(other, ast.NewEmphasis(1))
				for _, tr := range []ast.Node{other, root} {
					var want, got []ev
					_, _ = model(tr, script{level: -1}, &want)
					_ = ast.Walk(tr, func(n ast.Node, entering bool) (ast.WalkStatus, error) {
						got = append(got, ev{n, entering})
						if len(got) > 4*len(want)+16 {
							return ast.WalkStop, nil
						}
						return ast.WalkContinue, nil
					})
					s.Evals.Add(1)
					same := len(got) == len(want)
					for i := 0; same && i < len(got); i++ {
						same = got[i] == want[i]
					}
					if !same {
						s.Violate("walk-differs-from-model:after-walker-panic", "", nil, []string{fmt.Sprintf("chain of depth %d", d), fmt.Sprintf("Walk whose visitor panics on entering level %d (recovered by the caller)", l), "Walk of another tree / of the same tree"},
							fmt.Sprintf("Walk produced %d events, the model %d", len(got), len(want)), "", "")
						return
					}
				}
			}
			s.States.Add(1)
			s.Distinct(core.Hash([]byte(fmt.Sprint(d))))
		}
	}, r.Expired)
	s.AddSample([]string{"bq := NewBlockquote(); li := NewListItem(0); bq.Append(text, li, text); ... depth d", "ast.Walk(bq, visitor answering SkipChildren at level d/2)"})
	s.Bound = fmt.Sprintf("depth 1..%d", maxD)
	s.Transitions.Store(s.Evals.Load())
	s.Done()
}

func runC13(r *core.Run) {
	runC13Deep(r)
	runC13Wide(r)
	npool := core.Pick(r, 6, 7)
	c13Parents = core.Pick(r, 3, 4)
	if npool == 6 {
		// quick pool: P0 P1 M0(parent-capable) + three leaves
		c13Names = []string{"P0", "P1", "M0", "M1", "M2", "M3"}
	}
	maxDepth := core.Pick(r, 1<<30, 1<<30)
	ops := c13AllOps(npool)
	s := r.Sub("mutators-bfs", fmt.Sprintf("breadth-first search over the reachable forests of a pool of %d real nodes (%v; the first %d may be parents): from every state every legal call of AppendChild / InsertBefore / InsertAfter (nil, child and foreign reference) / ReplaceChild (child and foreign) / RemoveChild (child and non-child) / RemoveChildren / SortChildren(asc|desc) — %d candidate calls — is applied to a fresh copy built by replaying the shortest path, and every observable of every node (Parent, FirstChild, LastChild, Next/PreviousSibling chains both ways, ChildCount, HasChildren) is compared with a list-of-children model; state = model forest (sound: all BaseNode fields are observable and compared, so equal observables imply equal futures)", npool, c13Names[:npool], c13Parents, len(ops)))
	type st struct {
		path []c13Op
	}
	build := func(path []c13Op) (*c13Pool, *c13Model) {
		pl, m := newC13Pool(npool), newC13Model(npool)
		for _, o := range path {
			o.applyReal(pl)
			o.applyModel(m)
		}
		return pl, m
	}
	seen := map[string]bool{newC13Model(npool).key(): true}
	frontier := []st{{nil}}
	depth := 0
	walkSub := r.Sub("walk-scripts", "for every reachable forest and every node as root: the unscripted walk and every walker script with ≤2 non-Continue answers (entering: SkipChildren/Stop/error; leaving: Stop/error) — visit sequence and returned error compared with the model walk (enter and leave once, skipped node still left, nothing after a stop or error, error returned unchanged)")
	maxDev := 2
	complete := true
	for len(frontier) > 0 && depth < maxDepth {
		if r.Expired() {
			complete = false
			break
		}
		var next []st
		var mu sync.Mutex
		fr := frontier
		core.ForEachIndex(len(fr), core.Workers(), func(w int) func(int) {
			return func(fi int) {
				cur := fr[fi]
				_, m0 := build(cur.path)
				{
					pl, _ := build(cur.path)
					walkSub.Evals.Add(c13Walks(walkSub, pl, m0, cur.path, maxDev))
					walkSub.States.Add(1)
				}
				for _, o := range ops {
					if !o.legal(m0) {
						continue
					}
					pl, m := build(cur.path)
					pan := o.applyReal(pl)
					o.applyModel(m)
					s.Transitions.Add(1)
					s.Evals.Add(1)
					path := append(append([]c13Op{}, cur.path...), o)
					if pan != nil {
						s.Violate("panic:"+o.Kind, "", nil, opStrings(path), fmt.Sprintf("%s panicked: %v", o, pan), "no panic", "panic")
						continue
					}
					if diff := c13Compare(pl, m); diff != "" {
						kind := o.Kind
						if (o.Kind == "InsertBefore" || o.Kind == "InsertAfter" || o.Kind == "Replace") && (o.Ref < 0 || m0.parent[o.Ref] != o.P) {
							kind += "(nil-or-foreign-ref)"
						}
						s.Violate("tree-differs-from-model:"+kind, "", nil, opStrings(path), fmt.Sprintf("after %s: %s", o, diff), "list-of-children model", diff)
						continue // do not explore beyond a diverged state
					}
					k := m.key()
					mu.Lock()
					if !seen[k] {
						seen[k] = true
						next = append(next, st{path})
						if len(seen)%400 == 1 {
							s.AddSample(opStrings(path))
						}
					}
					mu.Unlock()
				}
			}
		}, nil)
		sort.Slice(next, func(i, j int) bool { return fmt.Sprint(next[i].path) < fmt.Sprint(next[j].path) })
		frontier = next
		depth++
	}
	s.States.Store(int64(len(seen)))
	s.Extra["max_depth"] = depth
	s.Extra["frontier_emptied"] = len(frontier) == 0
	s.Bound = fmt.Sprintf("pool=%d, to closure (depth %d)", npool, depth)
	if !complete || len(frontier) != 0 {
		s.Incomplete(fmt.Sprintf("stopped at depth %d with %d frontier states", depth, len(frontier)))
		walkSub.Incomplete("state exploration incomplete")
	}
	for k := range seen {
		s.Distinct(core.Hash([]byte(k)))
	}
	walkSub.Transitions.Store(walkSub.Evals.Load())
	walkSub.Bound = fmt.Sprintf("≤%d non-Continue answers per script", maxDev)
	walkSub.AddSample("script {2:SkipChildren, 5:error} on root P0 of forest P0[M0 M1[M2]]")
	for k := range seen {
		walkSub.Distinct(core.Hash([]byte("w" + k)))
	}
	s.Done()
	walkSub.Done()
}

func replayC13(r *core.Run, v *core.Violation) {
	fmt.Println("C13 replays: the replay file lists the exact call sequence; re-run ./run.sh C13 quick (the search is deterministic)")
	s := r.Sub(v.Sub, "replay")
	s.Evals.Add(1)
	s.Done()
}
