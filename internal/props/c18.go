package props

import (
	"bytes"
	"fmt"
	"os"
	"regexp"
	"runtime"
	"strings"
	"sync"
	"sync/atomic"
	"time"

	"github.com/yuin/goldmark/text"
	"github.com/yuin/goldmark/util"

	"verif/internal/core"
)

func init() {
	register(&Check{ID: "C18", QuickS: 240, ThorS: 2400, Run: runC18, Replay: replayC18})
}

// ---- environment: a source and, for the block reader, a list of line segments

type c18Env struct {
	Src   []byte
	Block bool
	Segs  []text.Segment
	// Prior (block reader only, same length as Segs): the reader is first built over a Segments object holding Prior and
	// used; the object is then overwritten element by element with Segs (Segments.Set) and handed to Reset again. From then
	// on the reader must behave exactly like a new reader over Segs.
	Prior []text.Segment
}

func (e *c18Env) String() string {
	if !e.Block {
		return "Reader(" + core.Q(e.Src) + ")"
	}
	var b strings.Builder
	for i, s := range e.Segs {
		if i > 0 {
			b.WriteString(",")
		}
		fmt.Fprintf(&b, "{%d,%d,pad=%d}", s.Start, s.Stop, s.Padding)
	}
	if e.Prior != nil {
		var p strings.Builder
		for i, s := range e.Prior {
			if i > 0 {
				p.WriteString(",")
			}
			fmt.Fprintf(&p, "{%d,%d,pad=%d}", s.Start, s.Stop, s.Padding)
		}
		return "BlockReader(" + core.Q(e.Src) + ", S=[" + p.String() + "]); PeekLine(); Advance(1); S.Set(i, …) to [" + b.String() + "]; Reset(S)"
	}
	return "BlockReader(" + core.Q(e.Src) + ", [" + b.String() + "])"
}

func (e *c18Env) newReader() text.Reader {
	if !e.Block {
		return text.NewReader(e.Src)
	}
	ss := text.NewSegments()
	if e.Prior != nil {
		ss.AppendAll(append([]text.Segment{}, e.Prior...))
		rd := text.NewBlockReader(e.Src, ss)
		if l, _ := rd.PeekLine(); len(l) > 0 {
			rd.Advance(1)
		}
		_ = rd.LineOffset()
		for i, sg := range e.Segs {
			ss.Set(i, sg)
		}
		rd.Reset(ss)
		return rd
	}
	ss.AppendAll(append([]text.Segment{}, e.Segs...))
	return text.NewBlockReader(e.Src, ss)
}

type c18Pos struct {
	Line int
	Seg  text.Segment
}

// ---- the reference model: a cursor is (line, segment); everything else is a function of it

func (e *c18Env) eof(p c18Pos) bool {
	if !e.Block {
		return p.Seg.Start < 0 || p.Seg.Start >= len(e.Src)
	}
	if len(e.Segs) == 0 || p.Line >= len(e.Segs) || p.Seg.Start < 0 {
		return true
	}
	return p.Seg.Start >= e.Segs[len(e.Segs)-1].Stop
}

// lines returns the lines of the reader: its segments for a block reader, the physical lines otherwise.
func (e *c18Env) lines() []text.Segment {
	if e.Block {
		return e.Segs
	}
	var out []text.Segment
	for i := 0; i < len(e.Src); {
		j := e.eol(i)
		out = append(out, text.NewSegment(i, j))
		i = j
	}
	return out
}

// appendSpaces appends n spaces (the model of virtual padding, for any width).
func appendSpaces(buf []byte, n int) []byte {
	for i := 0; i < n; i++ {
		buf = append(buf, ' ')
	}
	return buf
}

// lineView = virtual padding spaces, then the bytes from the cursor to the end of the line.
func (e *c18Env) lineView(buf []byte, p c18Pos) []byte {
	buf = buf[:0]
	if e.eof(p) {
		return buf
	}
	buf = appendSpaces(buf, p.Seg.Padding)
	return append(buf, e.Src[p.Seg.Start:p.Seg.Stop]...)
}

// fullView = everything still ahead of the cursor, crossing lines.
func (e *c18Env) fullView(buf []byte, p c18Pos) []byte {
	buf = e.lineView(buf, p)
	if e.eof(p) {
		return buf
	}
	if !e.Block {
		return append(buf, e.Src[p.Seg.Stop:]...)
	}
	for l := p.Line + 1; l < len(e.Segs); l++ {
		s := e.Segs[l]
		buf = appendSpaces(buf, s.Padding)
		buf = append(buf, e.Src[s.Start:s.Stop]...)
	}
	return buf
}

// eol returns the index just behind the first newline at or after i (or len).
func (e *c18Env) eol(i int) int {
	for ; i < len(e.Src); i++ {
		if e.Src[i] == '\n' {
			return i + 1
		}
	}
	return len(e.Src)
}

// lineHead is the head of the line the cursor is in: physical line start for the source reader,
// start of the line's segment for the block reader.
func (e *c18Env) lineHead(p c18Pos) int {
	if e.Block {
		if p.Line < len(e.Segs) {
			return e.Segs[p.Line].Start
		}
		return p.Seg.Start
	}
	i := p.Seg.Start
	if i > len(e.Src) {
		i = len(e.Src)
	}
	for i > 0 && e.Src[i-1] != '\n' {
		i--
	}
	return i
}

// column = tab-expanded width from the line head to the cursor, minus the virtual padding still pending.
func (e *c18Env) column(p c18Pos) int {
	v := 0
	for i := e.lineHead(p); i < p.Seg.Start && i < len(e.Src); i++ {
		if e.Src[i] == '\t' {
			v += 4 - v%4
		} else {
			v++
		}
	}
	return v - p.Seg.Padding
}

// validPos: the cursor is inside the source and, unless at the end, sits on a line of the reader.
func (e *c18Env) validPos(p c18Pos) string {
	s := p.Seg
	if e.Block && len(e.Segs) == 0 {
		return ""
	}
	if s.Start < 0 || s.Start > s.Stop || s.Stop > len(e.Src) || s.Padding < 0 {
		return fmt.Sprintf("position {%d,%d,pad=%d} is not inside the source (len %d)", s.Start, s.Stop, s.Padding, len(e.Src))
	}
	if e.eof(p) {
		return ""
	}
	if !e.Block {
		if s.Stop != e.eol(s.Start) {
			return fmt.Sprintf("position {%d,%d}: Stop is not the end of the line containing Start (%d)", s.Start, s.Stop, e.eol(s.Start))
		}
		return ""
	}
	ls := e.Segs[p.Line]
	if s.Start < ls.Start || s.Stop != ls.Stop {
		return fmt.Sprintf("line %d position {%d,%d} is not inside that line's segment {%d,%d}", p.Line, s.Start, s.Stop, ls.Start, ls.Stop)
	}
	return ""
}

// ---- operations

type c18Op struct {
	K string // kind
	A int    // argument
}

func (o c18Op) String() string {
	switch o.K {
	case "Advance":
		switch o.A {
		case -1:
			return "Advance(rest of line)"
		case -2:
			return "Advance(all that remains)"
		case -3:
			return "Advance(rest of line - 1)"
		}
		return fmt.Sprintf("Advance(%d)", o.A)
	case "Save":
		return fmt.Sprintf("p%d := Position()", o.A)
	case "SetPosition":
		return fmt.Sprintf("SetPosition(p%d)", o.A)
	case "SetPadding":
		return fmt.Sprintf("SetPadding(%d)", o.A)
	case "ValueSlot":
		return fmt.Sprintf("Value(segment of p%d)", o.A)
	case "ValueAll":
		return "Value(every segment inside a line)"
	case "AdvanceAndSetPadding":
		return fmt.Sprintf("AdvanceAndSetPadding(%d,%d)", o.A/1000, o.A%1000)
	case "FindClosure":
		return fmt.Sprintf("FindClosure('[',']',%s)", c18OptString(o.A))
	}
	return o.K + "()"
}

func c18Opts(a int) text.FindClosureOptions {
	return text.FindClosureOptions{CodeSpan: a&1 != 0, Nesting: a&2 != 0, Newline: a&4 != 0, Advance: a&8 != 0}
}

func c18OptString(a int) string {
	var p []string
	o := c18Opts(a)
	if o.CodeSpan {
		p = append(p, "CodeSpan")
	}
	if o.Nesting {
		p = append(p, "Nesting")
	}
	if o.Newline {
		p = append(p, "Newline")
	}
	if o.Advance {
		p = append(p, "Advance")
	}
	return "{" + strings.Join(p, ",") + "}"
}

func c18Menu(full bool) []c18Op {
	ops := []c18Op{
		{"PeekLine", 0}, {"Peek", 0}, {"LineOffset", 0},
		{"Advance", 1}, {"Advance", 2}, {"Advance", -1}, {"Advance", -3}, {"Advance", -2},
		{"AdvanceLine", 0},
		{"Save", 1}, {"SetPosition", 0}, {"SetPosition", 1},
		{"SetPadding", 0}, {"SetPadding", 1}, {"SetPadding", 3},
		{"AdvanceAndSetPadding", 1002}, {"AdvanceAndSetPadding", 2000}, {"AdvanceAndSetPadding", 2},
		{"SkipSpaces", 0}, {"SkipBlankLines", 0}, {"ReadRune", 0}, {"PrecendingCharacter", 0},
		{"Value", 0}, {"ValueSlot", 0}, {"ValueSlot", 1}, {"ValueAll", 0}, {"Match", 0}, {"FindSubMatch", 0}, {"ResetPosition", 0},
	}
	for a := 0; a < 16; a++ {
		if !full && a&1 != 0 && a&6 != 6 {
			continue // reduced menu: CodeSpan only together with Nesting+Newline
		}
		ops = append(ops, c18Op{"FindClosure", a})
	}
	return ops
}

var c18Regexp = regexp.MustCompile(`^[a ]+\[?`)

// ---- execution of one call sequence with judgement

type c18Exec struct {
	env   *c18Env
	s     *core.Sub
	b1    []byte
	b2    []byte
	calls int64
	slot  *c18Slot
}

// c18Slot announces the sequence a worker is executing, so that a call that never returns (or eats all
// memory) can be attributed: the reader is the implementation under test and may loop.
type c18Slot struct {
	mu   sync.Mutex
	tick atomic.Int64
	busy atomic.Bool
	env  *c18Env
	path []c18Op
	_    [32]byte
}

func (sl *c18Slot) begin(e *c18Env, path []c18Op) {
	sl.mu.Lock()
	sl.env = e
	sl.path = append(sl.path[:0], path...)
	sl.mu.Unlock()
	sl.busy.Store(true)
	sl.tick.Add(1)
}

// c18Guard watches the slots: a sequence that is still running after limit, or a heap beyond memLimit, is a violation
// ("no such call panics" a fortiori excludes calls that never return); the run is finished at once.
func c18Guard(r *core.Run, s *core.Sub, slots []*c18Slot, limit time.Duration, memLimit uint64) (stop func()) {
	done := make(chan struct{})
	go func() {
		last := make([]int64, len(slots))
		since := make([]time.Time, len(slots))
		for i := range since {
			since[i] = time.Now()
		}
		t := time.NewTicker(200 * time.Millisecond)
		defer t.Stop()
		var ms runtime.MemStats
		for {
			select {
			case <-done:
				return
			case <-t.C:
			}
			now := time.Now()
			worst, worstAge := -1, time.Duration(0)
			for i, sl := range slots {
				tk := sl.tick.Load()
				if tk != last[i] || !sl.busy.Load() {
					last[i], since[i] = tk, now
					continue
				}
				if age := now.Sub(since[i]); age > worstAge {
					worst, worstAge = i, age
				}
			}
			runtime.ReadMemStats(&ms)
			why := ""
			if worst >= 0 && worstAge > limit {
				why = fmt.Sprintf("the call sequence is still running after %s", worstAge.Round(time.Second))
			} else if ms.HeapAlloc > memLimit && worst >= 0 {
				why = fmt.Sprintf("heap grew to %d MiB while this call sequence has been running for %s (runaway allocation)", ms.HeapAlloc>>20, worstAge.Round(time.Millisecond))
			}
			if why == "" {
				continue
			}
			sl := slots[worst]
			sl.mu.Lock()
			e, path := sl.env, append([]c18Op{}, sl.path...)
			sl.mu.Unlock()
			kind, lastOp := "reader", "?"
			if e.Block {
				kind = "blockreader"
			}
			if len(path) > 0 {
				lastOp = path[len(path)-1].K
			}
			s.Violate(kind+":call-does-not-return:"+lastOp, "", nil, c18OpStrings(e, path), why, "every call returns", "no return")
			s.Incomplete("aborted: a reader call did not return")
			os.Exit(r.Finish())
		}
	}()
	return func() { close(done) }
}

type c18Fail struct {
	sig, detail, want, got string
}

func c18Position(rd text.Reader) c18Pos {
	l, s := rd.Position()
	return c18Pos{l, s}
}

// run executes path (slot 0 holds the initial position) and then the terminal observation
// PeekLine/Peek/LineOffset. Returns the first failed clause, or nil.
func (x *c18Exec) run(path []c18Op) (fail *c18Fail) {
	e := x.env
	step := -1
	var cur c18Op
	defer func() {
		if p := recover(); p != nil {
			what := "terminal observation"
			if step >= 0 && step < len(path) {
				what = cur.String()
			}
			fail = &c18Fail{"panic:" + strings.SplitN(what, "(", 2)[0], fmt.Sprintf("step %d %s panicked: %v", step, what, p), "no panic", fmt.Sprint(p)}
		}
	}()
	if x.slot != nil {
		x.slot.begin(e, path)
	}
	rd := e.newReader()
	var slots [2]c18Pos
	var have [2]bool
	slots[0], have[0] = c18Position(rd), true
	if msg := e.validPos(slots[0]); msg != "" {
		return &c18Fail{"position-outside-source:New", "initial " + msg, "", ""}
	}
	for i, o := range path {
		step, cur = i, o
		before := c18Position(rd)
		atEOF := e.eof(before)
		x.calls++
		switch o.K {
		case "PeekLine", "Peek", "LineOffset":
			if f := x.observe(rd, o.K, i); f != nil {
				return f
			}
		case "Advance", "AdvanceAndSetPadding":
			x.b1 = e.fullView(x.b1, before)
			n, pad := o.A, -1
			if o.K == "AdvanceAndSetPadding" {
				n, pad = o.A/1000, o.A%1000
			}
			switch n {
			case -1:
				n = len(e.lineView(x.b2, before))
			case -2:
				n = len(x.b1)
			case -3:
				n = len(e.lineView(x.b2, before)) - 1
			}
			if n < 0 || n > len(x.b1) {
				return nil // precondition not met: not a generated sequence
			}
			if pad >= 0 {
				rd.AdvanceAndSetPadding(n, pad)
				break // result not defined by the statement: re-synchronise
			}
			rd.Advance(n)
			after := c18Position(rd)
			if msg := e.validPos(after); msg != "" {
				return &c18Fail{"position-outside-source:Advance", fmt.Sprintf("step %d %s: %s", i, o, msg), "", ""}
			}
			if !e.Block && n > 0 && after.Seg.Start == len(e.Src) && after.Seg.Padding == 0 && e.Src[len(e.Src)-1] != '\n' {
				// moved forward to the very end of a source whose last line has no line ending: the cursor is still on that
				// line, so its column is the tab-expanded width of the line
				want := e.column(c18Pos{Seg: text.NewSegment(len(e.Src), len(e.Src))})
				if got := rd.LineOffset(); got != want {
					return &c18Fail{"lineoffset-differs-from-column", fmt.Sprintf("step %d %s reached the end of the source on its unterminated last line: LineOffset = %d, the tab-expanded width of that line is %d", i, o, got, want), fmt.Sprint(want), fmt.Sprint(got)}
				}
			}
			x.b2 = e.fullView(x.b2, after)
			if !bytes.Equal(x.b2, x.b1[n:]) {
				return &c18Fail{"advance-moved-wrong-distance", fmt.Sprintf("step %d %s from line %d %+v: remaining view is %q, expected %q", i, o, before.Line, before.Seg, x.b2, x.b1[n:]), string(x.b1[n:]), string(x.b2)}
			}
		case "AdvanceLine":
			rd.AdvanceLine()
		case "Save":
			slots[o.A], have[o.A] = before, true
		case "SetPosition":
			if !have[o.A] {
				return nil
			}
			rd.SetPosition(slots[o.A].Line, slots[o.A].Seg)
			if after := c18Position(rd); after != slots[o.A] {
				return &c18Fail{"setposition-not-restored", fmt.Sprintf("step %d %s: Position() is now line %d %+v, saved line %d %+v", i, o, after.Line, after.Seg, slots[o.A].Line, slots[o.A].Seg), "", ""}
			}
		case "SetPadding":
			if atEOF {
				return nil
			}
			rd.SetPadding(o.A)
		case "SkipSpaces":
			rd.SkipSpaces()
		case "SkipBlankLines":
			rd.SkipBlankLines()
		case "ReadRune":
			_, _, _ = rd.ReadRune()
		case "PrecendingCharacter":
			_ = rd.PrecendingCharacter()
		case "Value":
			if atEOF {
				return nil
			}
			got := rd.Value(before.Seg)
			want := before.Seg.Value(e.Src)
			if !bytes.Equal(got, want) {
				return &c18Fail{"value-differs-from-segment", fmt.Sprintf("step %d Value(%+v) = %q, the segment's own value is %q", i, before.Seg, got, want), string(want), string(got)}
			}
			if after := c18Position(rd); after != before {
				return &c18Fail{"value-moved-cursor", fmt.Sprintf("step %d Value moved the cursor", i), "", ""}
			}
		case "ValueSlot":
			// the value of a segment obtained earlier (possibly on another line than the cursor is on now)
			if !have[o.A] || e.eof(slots[o.A]) {
				return nil
			}
			sg := slots[o.A].Seg
			got := rd.Value(sg)
			want := sg.Value(e.Src)
			if !bytes.Equal(got, want) {
				return &c18Fail{"value-differs-from-segment", fmt.Sprintf("step %d Value(%+v) (segment saved as p%d, cursor now at line %d %+v) = %q, the segment's own value is %q", i, sg, o.A, before.Line, before.Seg, got, want), string(want), string(got)}
			}
			if after := c18Position(rd); after != before {
				return &c18Fail{"value-moved-cursor", fmt.Sprintf("step %d Value moved the cursor", i), "", ""}
			}
		case "ValueAll":
			// Value is a function of its argument alone: every segment that lies inside one line of the reader (with the
			// line's padding when it starts at the head of a padded line), wherever the cursor happens to be
			for _, L := range e.lines() {
				for st := L.Start; st <= L.Stop; st++ {
					for sp := st; sp <= L.Stop; sp++ {
						sg := text.NewSegment(st, sp)
						if st == L.Start {
							sg.Padding = L.Padding
						}
						got := rd.Value(sg)
						want := sg.Value(e.Src)
						if !bytes.Equal(got, want) {
							return &c18Fail{"value-differs-from-segment", fmt.Sprintf("step %d Value(%+v) with the cursor at line %d %+v = %q, the segment's own value is %q", i, sg, before.Line, before.Seg, got, want), string(want), string(got)}
						}
					}
				}
			}
			if after := c18Position(rd); after != before {
				return &c18Fail{"value-moved-cursor", fmt.Sprintf("step %d Value moved the cursor", i), "", ""}
			}
		case "Match":
			rd.Match(c18Regexp)
		case "FindSubMatch":
			rd.FindSubMatch(c18Regexp)
		case "ResetPosition":
			rd.ResetPosition()
		case "FindClosure":
			opt := c18Opts(o.A)
			segs, found := rd.FindClosure('[', ']', opt)
			after := c18Position(rd)
			if !opt.Advance && after != before {
				return &c18Fail{"findclosure-moved-cursor", fmt.Sprintf("step %d %s (found=%v): position line %d %+v became line %d %+v", i, o, found, before.Line, before.Seg, after.Line, after.Seg), "", ""}
			}
			if found && segs != nil {
				for k := 0; k < segs.Len(); k++ {
					sg := segs.At(k)
					if sg.Start < 0 || sg.Start > sg.Stop || sg.Stop > len(e.Src) {
						return &c18Fail{"position-outside-source:FindClosure", fmt.Sprintf("step %d %s returned segment %+v outside the source", i, o, sg), "", ""}
					}
				}
			}
		}
		if msg := e.validPos(c18Position(rd)); msg != "" {
			return &c18Fail{"position-outside-source:" + o.K, fmt.Sprintf("step %d %s: %s", i, o, msg), "", ""}
		}
	}
	step = len(path)
	for _, k := range [...]string{"PeekLine", "Peek", "LineOffset"} {
		x.calls++
		if f := x.observe(rd, k, len(path)); f != nil {
			f.detail = "final observation: " + f.detail
			return f
		}
	}
	return nil
}

// observe judges one of the pure observers against the model of the current position.
func (x *c18Exec) observe(rd text.Reader, kind string, i int) *c18Fail {
	e := x.env
	p := c18Position(rd)
	x.b1 = e.lineView(x.b1, p)
	switch kind {
	case "PeekLine":
		line, seg := rd.PeekLine()
		if e.eof(p) {
			if line != nil {
				return &c18Fail{"peekline-differs-from-view", fmt.Sprintf("step %d PeekLine at the end (line %d %+v) returned %q", i, p.Line, p.Seg, line), "nil", string(line)}
			}
			return nil
		}
		if line == nil || !bytes.Equal(line, x.b1) {
			return &c18Fail{"peekline-differs-from-view", fmt.Sprintf("step %d PeekLine at line %d %+v returned %q, the view from the cursor to the end of the line is %q", i, p.Line, p.Seg, line, x.b1), string(x.b1), string(line)}
		}
		if seg != p.Seg {
			return &c18Fail{"peekline-segment-differs-from-position", fmt.Sprintf("step %d PeekLine segment %+v, Position %+v", i, seg, p.Seg), "", ""}
		}
		if c18Position(rd) != p {
			return &c18Fail{"peekline-moved-cursor", fmt.Sprintf("step %d PeekLine moved the cursor", i), "", ""}
		}
	case "Peek":
		got := rd.Peek()
		want := text.EOF
		if len(x.b1) > 0 {
			want = x.b1[0]
		}
		if got != want {
			return &c18Fail{"peek-differs-from-view", fmt.Sprintf("step %d Peek at line %d %+v = %q, first byte of the view %q is %q", i, p.Line, p.Seg, got, x.b1, want), string(want), string(got)}
		}
	case "LineOffset":
		if e.eof(p) {
			_ = rd.LineOffset()
			return nil
		}
		got, want := rd.LineOffset(), e.column(p)
		if got != want {
			return &c18Fail{"lineoffset-differs-from-column", fmt.Sprintf("step %d LineOffset at line %d %+v = %d, tab-expanded column from the line head %d minus padding is %d", i, p.Line, p.Seg, got, e.lineHead(p), want), fmt.Sprint(want), fmt.Sprint(got)}
		}
	}
	return nil
}

func c18OpStrings(e *c18Env, path []c18Op) []string {
	out := []string{"r := " + e.String(), "p0 := r.Position()"}
	for _, o := range path {
		out = append(out, "r."+o.String())
	}
	return append(out, "observe r.PeekLine(), r.Peek(), r.LineOffset()")
}

// explore runs every call sequence of length ≤ depth over menu on env (depth-first).
func (x *c18Exec) explore(menu []c18Op, depth int) (nodes int64) {
	path := make([]c18Op, 0, depth)
	var rec func()
	rec = func() {
		nodes++
		if f := x.run(path); f != nil {
			kind := "reader"
			if x.env.Block {
				kind = "blockreader"
			}
			x.s.Violate(kind+":"+f.sig, "", nil, c18OpStrings(x.env, path), f.detail, f.want, f.got)
			return // do not extend a sequence that already failed
		}
		if len(path) == depth {
			return
		}
		for _, o := range menu {
			path = append(path, o)
			rec()
			path = path[:len(path)-1]
		}
	}
	rec()
	return
}

// ---- environments

var c18Alphabet = []string{"a", " ", "\t", "\n", "\r", "あ", "[", "]", "`", "\\"}

var c18Curated = []string{
	"a\tb\n\tc [x] `]`\n",
	" [a\n b]\n\n  c\n",
	"\t\ta\n[`]`]\\]\n",
	"あ [あ]\r\n\\[a\\]\r\nb",
	"a\n\n \n\tb",
	"[[a]]\n[a\n]\n",
	"> \tcode\n>  x\n",
	"   a  \n\n",
}

func c18Words(alpha []string, n int) [][]byte {
	var out [][]byte
	var rec func(prefix []byte, d int)
	rec = func(prefix []byte, d int) {
		if d > 0 {
			out = append(out, append([]byte{}, prefix...))
		}
		if d == n {
			return
		}
		for _, t := range alpha {
			rec(append(prefix, t...), d+1)
		}
	}
	rec(nil, 0)
	return out
}

// c18Carvings returns every list of ≤maxSegs line segments carved from src: for each physical line either
// nothing, the whole line, the line without its first byte (as after a container marker) or the line without its line
// ending, with paddings from pads on the first carved line.
func c18Carvings(src []byte, maxSegs int, pads []int) [][]text.Segment {
	type ln struct{ s, e int }
	var lines []ln
	for i := 0; i < len(src); {
		j := i
		for j < len(src) && src[j] != '\n' {
			j++
		}
		if j < len(src) {
			j++
		}
		lines = append(lines, ln{i, j})
		i = j
	}
	var out [][]text.Segment
	var rec func(li int, cur []text.Segment)
	rec = func(li int, cur []text.Segment) {
		if li == len(lines) {
			if len(cur) > 0 {
				out = append(out, append([]text.Segment{}, cur...))
			}
			return
		}
		rec(li+1, cur)
		if len(cur) == maxSegs {
			return
		}
		l := lines[li]
		var opts []text.Segment
		opts = append(opts, text.NewSegment(l.s, l.e))
		if l.e-l.s >= 2 {
			opts = append(opts, text.NewSegment(l.s+1, l.e))
			if src[l.e-1] == '\n' {
				opts = append(opts, text.NewSegment(l.s, l.e-1))
			}
		}
		for _, o := range opts {
			for _, p := range pads {
				if p > 0 && o.Start == l.s {
					continue // virtual padding only arises behind a consumed byte
				}
				o.Padding = p
				rec(li+1, append(cur, o))
			}
		}
	}
	rec(0, nil)
	return out
}

func runC18(r *core.Run) {
	type job struct {
		env   *c18Env
		depth int
		full  bool
	}
	var ladderMenu []c18Op
	plan := func(name string, envs []*c18Env, depth int, full bool, rule string) {
		menu := c18Menu(full)
		if ladderMenu != nil {
			menu = ladderMenu
		}
		s := r.Sub(name, fmt.Sprintf("%s; every sequence of ≤%d calls from a menu of %d (%s) is executed on a new reader with slot p0 = initial position; judged clauses: PeekLine = padding spaces + bytes from the cursor to the end of the line and its segment = Position; Peek = first byte of that view or EOF; Advance(n≤remaining) drops exactly n bytes of the full view; SetPosition(saved) restores Position; LineOffset = tab-expanded column from the line head minus padding; Value(seg) = seg.Value(source); FindClosure without Advance leaves Position untouched; after every call the position is inside the source and on a line of the reader; other calls (AdvanceLine, SetPadding, AdvanceAndSetPadding, Skip*, ReadRune, Match, FindSubMatch, ResetPosition, FindClosure+Advance) only move the cursor and the model re-synchronises from Position(); each sequence ends with the observation PeekLine, Peek, LineOffset", rule, depth, len(menu), opMenuString(menu)))
		var perEnv int64 = 0
		p := int64(1)
		for d := 0; d <= depth; d++ {
			perEnv += p
			p *= int64(len(menu))
		}
		s.Bound = fmt.Sprintf("depth=%d menu=%d environments=%d", depth, len(menu), len(envs))
		slots := make([]*c18Slot, core.Workers())
		for i := range slots {
			slots[i] = &c18Slot{}
		}
		stop := c18Guard(r, s, slots, 30*time.Second, 3<<30)
		complete := core.ForEachIndex(len(envs), core.Workers(), func(w int) func(int) {
			return func(i int) {
				x := &c18Exec{env: envs[i], s: s, slot: slots[w]}
				n := x.explore(menu, depth)
				slots[w].busy.Store(false)
				s.States.Add(n)
				s.Transitions.Add(x.calls)
				s.Evals.Add(n)
				s.Distinct(core.Hash([]byte(envs[i].String())))
				if i%(len(envs)/6+1) == 0 {
					s.AddSample(envs[i].String())
				}
			}
		}, r.Expired)
		stop()
		if !complete {
			s.Incomplete("internal deadline reached before all environments ran")
		}
		s.Extra["sequences_per_environment_upper_bound"] = perEnv
		s.Extra["note"] = "sequences whose next call does not meet its precondition (Advance beyond what remains, SetPosition of an empty slot, SetPadding at the end) are cut there; failed sequences are not extended"
		s.Done()
	}
	mkReaders := func(srcs [][]byte) []*c18Env {
		var out []*c18Env
		for _, s := range srcs {
			out = append(out, &c18Env{Src: s})
		}
		return out
	}
	mkBlocks := func(srcs [][]byte, maxSegs int, pads []int) []*c18Env {
		var out []*c18Env
		for _, s := range srcs {
			for _, c := range c18Carvings(s, maxSegs, pads) {
				out = append(out, &c18Env{Src: s, Block: true, Segs: c})
			}
		}
		return out
	}
	var curated [][]byte
	for _, c := range c18Curated {
		curated = append(curated, []byte(c))
	}
	w3 := c18Words(c18Alphabet, 3)
	w2 := c18Words(c18Alphabet, 2)
	small := c18Words([]string{"a", "\t", "\n", "[", "]"}, 3)
	if r.Quick() {
		plan("reader-words3-depth3", mkReaders(w3), 3, false, "source reader over every word of ≤3 tokens over "+fmt.Sprintf("%q", c18Alphabet))
		plan("reader-curated-depth4", mkReaders(curated[:4]), 4, false, "source reader over 4 curated multi-line sources (tabs, brackets, code spans, CRLF, multi-byte)")
		plan("blockreader-words2-depth3", mkBlocks(w2, 3, []int{0, 2}), 3, false, "block reader over every carving (≤3 segments; whole line / first byte dropped / line ending dropped; padding 0 or 2 behind a dropped byte) of every word of ≤2 tokens")
		plan("blockreader-small3-depth3", mkBlocks(small, 3, []int{0, 3}), 3, false, "block reader over every carving of every word of ≤3 tokens over {a,TAB,LF,[,]}")
		plan("blockreader-curated-depth3", mkBlocks(curated[:4], 2, []int{0, 1}), 3, false, "block reader over every carving (≤2 segments) of 4 curated sources")
	} else {
		plan("reader-words3-depth4", mkReaders(w3), 4, false, "source reader over every word of ≤3 tokens over "+fmt.Sprintf("%q", c18Alphabet))
		plan("reader-words4-depth3", mkReaders(c18Words(c18Alphabet, 4)), 3, true, "source reader over every word of ≤4 tokens")
		plan("reader-curated-depth4", mkReaders(curated), 4, true, "source reader over 8 curated multi-line sources")
		plan("blockreader-words2-depth4", mkBlocks(w2, 3, []int{0, 2}), 4, false, "block reader over every carving of every word of ≤2 tokens")
		plan("blockreader-words3-depth3", mkBlocks(w3, 3, []int{0, 1, 3}), 3, true, "block reader over every carving of every word of ≤3 tokens")
		plan("blockreader-curated-depth4", mkBlocks(curated, 2, []int{0, 1}), 4, false, "block reader over every carving (≤2 segments) of 8 curated sources")
	}
	// every byte value in the source (the readers use an in-band end marker; bytes such as 0xff, 0x00, 0x80 must be data)
	{
		var bsrc [][]byte
		for b := 0; b < 256; b++ {
			c := byte(b)
			bsrc = append(bsrc, []byte{c}, []byte{'a', c, 'b', '\n', c, 'c'}, []byte{c, c, '\n', 'a', c})
		}
		plan("reader-byte-sweep-depth2", mkReaders(bsrc), 2, false, "source reader over 3 sources for EVERY byte value b (b; a b b LF b c; b b LF a b)")
		plan("blockreader-byte-sweep-depth2", mkBlocks(bsrc, 2, []int{0, 2}), 2, false, "block reader over every carving (≤2 segments) of the same sources")
	}
	// a block reader whose Segments object is rewritten in place and handed to Reset again
	{
		var envs []*c18Env
		for _, src := range small {
			cs := c18Carvings(src, 2, []int{0, 2})
			byLen := map[int][][]text.Segment{}
			for _, c := range cs {
				byLen[len(c)] = append(byLen[len(c)], c)
			}
			for _, c := range cs {
				if len(c) == 0 {
					continue
				}
				// priors: the same lines with the last one a byte shorter, and up to three other carvings of equal length
				pri := [][]text.Segment{}
				if last := c[len(c)-1]; last.Stop-last.Start > 1 {
					p := append([]text.Segment{}, c...)
					p[len(p)-1].Stop--
					pri = append(pri, p)
				}
				for k, o := range byLen[len(c)] {
					if k < 3 {
						pri = append(pri, o)
					}
				}
				for _, p := range pri {
					envs = append(envs, &c18Env{Src: src, Block: true, Segs: c, Prior: p})
				}
			}
		}
		plan("blockreader-reset-same-segments-depth2", envs, 2, false, "block reader built over one list of line segments, used, then its Segments object overwritten in place (Segments.Set, same length) with another carving of the same source and passed to Reset again: every word of ≤3 tokens over {a,TAB,LF,[,]}, every carving of ≤2 segments × (the same carving with a shorter last line, three other carvings of equal length)")
	}
	// padding ladder: EVERY padding width 0..maxP, set on the readers and carried by block-reader segments
	maxP := core.Pick(r, 130, 520)
	ladderSrcs := [][]byte{[]byte("ab\tc\nd"), []byte("\ta [b]\n"), []byte("a")}
	for p := 0; p <= maxP; p++ {
		if p > 40 && p%16 > 1 && p%16 < 15 && r.Quick() {
			continue // quick: every width up to 40, then the widths around every multiple of 16
		}
		ladderMenu = []c18Op{{"SetPadding", p}, {"AdvanceAndSetPadding", 1000 + p}, {"AdvanceAndSetPadding", p}, {"PeekLine", 0}, {"Advance", 1}, {"Advance", -3}, {"Advance", -1},
			{"Save", 1}, {"SetPosition", 1}, {"ValueSlot", 1}, {"ValueAll", 0}, {"FindClosure", 6}}
		envs := mkReaders(ladderSrcs)
		envs = append(envs, mkBlocks(ladderSrcs[:2], 2, []int{p})...)
		plan(fmt.Sprintf("padding-ladder/%d", p), envs, 3, false, fmt.Sprintf("padding width %d: source reader over 3 short sources and block reader over every carving (≤2 segments, padding %d behind a dropped byte) of 2 of them", p, p))
	}
	ladderMenu = nil
	_ = util.TabWidth
}

func opMenuString(menu []c18Op) string {
	var p []string
	for _, o := range menu {
		p = append(p, o.String())
	}
	return strings.Join(p, ", ")
}

func replayC18(r *core.Run, v *core.Violation) {
	fmt.Println("C18 replays: the replay file lists the reader construction and the exact call sequence; the search is deterministic, re-run ./run.sh C18 quick")
	s := r.Sub(v.Sub, "replay")
	s.Evals.Add(1)
	s.Done()
}
