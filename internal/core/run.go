// Package core is the shared machinery of the bounded-exhaustive checks: run bookkeeping,
// violation de-duplication and known-finding matching, evidence and replay files.
package core

import (
	"crypto/sha1"
	"encoding/base64"
	"encoding/hex"
	"encoding/json"
	"fmt"
	"os"
	"path/filepath"
	"runtime"
	"sort"
	"strconv"
	"strings"
	"sync"
	"sync/atomic"
	"time"
)

// Violation is one failing case. Sig identifies the *kind* of failure (verdict code plus a
// structural fingerprint computed from the case); it is what known findings are matched on.
type Violation struct {
	Property string `json:"property"`
	Sub      string `json:"sub"`
	Sig      string `json:"sig"`
	Cfg      string `json:"cfg,omitempty"`
	InputB64 string `json:"input_b64,omitempty"`
	InputQ   string `json:"input_quoted,omitempty"`
	Ops      any    `json:"ops,omitempty"`
	Detail   string `json:"detail"`
	Expected string `json:"expected,omitempty"`
	Actual   string `json:"actual,omitempty"`
	GoTest   string `json:"go_test,omitempty"`
	Count    int64  `json:"count_with_this_sig"`
	input    []byte
	weight   int
}

// Input returns the raw input of the violation (nil for operation-sequence violations).
func (v *Violation) Input() []byte { return v.input }

// Finding is one entry of known_findings.json.
type Finding struct {
	Status   string `json:"status"` // "known" or "fixed"
	Property string `json:"property"`
	Sig      string `json:"sig,omitempty"`
	Commit   string `json:"commit,omitempty"`
	What     string `json:"what"`
}

// Sub is one sub-check (one enumerated space with one oracle).
type Sub struct {
	run         *Run
	Name        string
	Rule        string
	Evals       atomic.Int64 // cases executed on the implementation
	States      atomic.Int64
	Transitions atomic.Int64
	Planned     int64 // size of the space by formula (0 = unknown)
	Exhaustive  bool
	Companion   bool // a separately reported non-exhaustive companion pass: kept out of the aggregate coverage figures
	Bound       string
	Notes       []string
	Extra       map[string]any
	start       time.Time
	wall        float64

	dmu      [64]sync.Mutex
	dset     [64]map[uint64]struct{}
	dcount   atomic.Int64
	dcapped  atomic.Bool
	smu      sync.Mutex
	samples  []any
	sampleAt int64
}

const distinctCap = 3 << 20

// Run is one invocation of one property check.
type Run struct {
	ID       string
	Tier     string
	Seed     int64
	Level    string
	Start    time.Time
	Deadline time.Time
	Verif    string // /verif
	Repo     string // repo under test
	Assume   []string

	mu    sync.Mutex
	subs  []*Sub
	vios  map[string]*Violation
	vkeys []string
	other int64
}

// NewRun creates the run; budget is the internal soft deadline (exceeding it is not a violation).
func NewRun(id, tier string, budget time.Duration) *Run {
	seed, _ := strconv.ParseInt(os.Getenv("VERIF_SEED"), 10, 64)
	verif := os.Getenv("VERIF_DIR")
	if verif == "" {
		verif = "/verif"
	}
	repo := os.Getenv("VERIF_REPO_DIR")
	if repo == "" {
		repo = "/repo"
	}
	if s := os.Getenv("VERIF_BUDGET_S"); s != "" {
		if n, err := strconv.Atoi(s); err == nil {
			budget = time.Duration(n) * time.Second
		}
	}
	return &Run{ID: id, Tier: tier, Seed: seed, Level: "model_checking", Start: time.Now(),
		Deadline: time.Now().Add(budget), Verif: verif, Repo: repo, vios: map[string]*Violation{}}
}

// Progress is bumped by checks whose work happens in subprocesses (so that the stall guard sees them advance).
var Progress atomic.Int64

// StartStallGuard ends the process with exit status 2 (no verdict) when no sub-check has evaluated anything for the
// given time: the library under test did not return from a call (which is a matter for C01) or the check itself is
// stuck; either way this run cannot produce a verdict about its own property and must not block whoever started it.
func (r *Run) StartStallGuard(limit time.Duration) {
	go func() {
		var last int64 = -1
		since := time.Now()
		for {
			time.Sleep(2 * time.Second)
			sum := Progress.Load()
			r.mu.Lock()
			for _, s := range r.subs {
				sum += s.Evals.Load() + s.States.Load() + s.Transitions.Load()
			}
			r.mu.Unlock()
			if sum != last {
				last, since = sum, time.Now()
				continue
			}
			if time.Since(since) > limit {
				fmt.Printf("NO-VERDICT: %s made no progress for %s (a call into the library did not return, or the check is stuck); aborting without a verdict\n", r.ID, limit)
				os.Exit(2)
			}
		}
	}()
}

// Quick reports whether this is the quick tier.
func (r *Run) Quick() bool { return r.Tier != "thorough" }

// Pick returns q for the quick tier and t for the thorough tier.
func Pick[T any](r *Run, q, t T) T {
	if r.Quick() {
		return q
	}
	return t
}

// Expired reports whether the internal deadline has passed.
func (r *Run) Expired() bool { return time.Now().After(r.Deadline) }

// Workers is the number of parallel workers used by enumerations.
func Workers() int {
	n := runtime.NumCPU()
	if s := os.Getenv("VERIF_WORKERS"); s != "" {
		if v, err := strconv.Atoi(s); err == nil && v > 0 {
			n = v
		}
	}
	if n > 32 {
		n = 32
	}
	return n
}

// Sub starts a sub-check.
func (r *Run) Sub(name, rule string) *Sub {
	s := &Sub{run: r, Name: name, Rule: rule, Exhaustive: true, start: time.Now(), Extra: map[string]any{}}
	for i := range s.dset {
		s.dset[i] = map[uint64]struct{}{}
	}
	r.mu.Lock()
	r.subs = append(r.subs, s)
	r.mu.Unlock()
	return s
}

// Done closes the sub-check and prints a progress line.
func (s *Sub) Done() {
	s.wall = time.Since(s.start).Seconds()
	ev := s.Evals.Load()
	if s.Planned > 0 && ev < s.Planned && s.Exhaustive {
		// a formula was given and we ran fewer cases: never call that exhaustive
		s.Exhaustive = false
		s.Notes = append(s.Notes, fmt.Sprintf("executed %d of %d planned", ev, s.Planned))
	}
	fmt.Printf("  [%s/%s] evals=%d states=%d transitions=%d distinct_nontrivial=%d exhaustive=%v bound=%q %.1fs\n",
		s.run.ID, s.Name, ev, s.States.Load(), s.Transitions.Load(), s.dcount.Load(), s.Exhaustive, s.Bound, s.wall)
}

// Count increments a named counter reported in the evidence (Extra["counts"]); it is not a verdict.
func (s *Sub) Count(name string) {
	s.run.mu.Lock()
	m, _ := s.Extra["counts"].(map[string]int64)
	if m == nil {
		m = map[string]int64{}
		s.Extra["counts"] = m
	}
	m[name]++
	s.run.mu.Unlock()
}

// Incomplete marks the sub-check as cut short (deadline or cap) with a reason.
func (s *Sub) Incomplete(why string) {
	s.run.mu.Lock()
	s.Exhaustive = false
	s.Notes = append(s.Notes, why)
	s.run.mu.Unlock()
}

// Hash is FNV-1a over b.
func Hash(b []byte) uint64 {
	h := uint64(14695981039346656037)
	for _, c := range b {
		h ^= uint64(c)
		h *= 1099511628211
	}
	return h
}

// HashMix mixes two hashes.
func HashMix(a, b uint64) uint64 {
	a ^= b + 0x9e3779b97f4a7c15 + (a << 6) + (a >> 2)
	return a
}

// Distinct records the digest of a non-trivial case (by the sub-check's stated rule).
func (s *Sub) Distinct(h uint64) {
	if s.dcapped.Load() {
		return
	}
	i := h & 63
	s.dmu[i].Lock()
	if _, ok := s.dset[i][h]; !ok {
		s.dset[i][h] = struct{}{}
		if s.dcount.Add(1) >= distinctCap {
			s.dcapped.Store(true)
		}
	}
	s.dmu[i].Unlock()
}

// MaybeSample stores a written-out case at geometrically spaced counts (1st, 4th, 16th, ...).
func (s *Sub) MaybeSample(n int64, f func() any) {
	if n < atomic.LoadInt64(&s.sampleAt) {
		return
	}
	s.smu.Lock()
	if n >= s.sampleAt && len(s.samples) < 10 {
		s.samples = append(s.samples, f())
		if s.sampleAt == 0 {
			atomic.StoreInt64(&s.sampleAt, 1)
		}
		atomic.StoreInt64(&s.sampleAt, s.sampleAt*4)
	}
	s.smu.Unlock()
}

// AddSample stores a sample unconditionally (bounded).
func (s *Sub) AddSample(v any) {
	s.smu.Lock()
	if len(s.samples) < 12 {
		s.samples = append(s.samples, v)
	}
	s.smu.Unlock()
}

// Q quotes bytes for humans.
func Q(b []byte) string { return strconv.QuoteToASCII(string(b)) }

// Clip shortens long strings for reports.
func Clip(s string, n int) string {
	if len(s) <= n {
		return s
	}
	return s[:n] + fmt.Sprintf("...(+%d bytes)", len(s)-n)
}

// Violate records a violating case. Only the smallest witness per signature is kept.
func (s *Sub) Violate(sig, cfg string, input []byte, ops any, detail, expected, actual string) {
	r := s.run
	key := s.Name + "|" + sig
	w := len(input)
	if input == nil {
		if b, err := json.Marshal(ops); err == nil {
			w = len(b)
		}
	}
	r.mu.Lock()
	defer r.mu.Unlock()
	if v, ok := r.vios[key]; ok {
		v.Count++
		if w < v.weight || (w == v.weight && input != nil && string(input) < string(v.input)) {
			n := v.Count
			*v = *mkViolation(r.ID, s.Name, sig, cfg, input, ops, detail, expected, actual)
			v.Count = n
			v.weight = w
		}
		return
	}
	if len(r.vios) >= 400 {
		r.other++
		return
	}
	v := mkViolation(r.ID, s.Name, sig, cfg, input, ops, detail, expected, actual)
	v.Count = 1
	v.weight = w
	r.vios[key] = v
	r.vkeys = append(r.vkeys, key)
}

func mkViolation(id, sub, sig, cfg string, input []byte, ops any, detail, expected, actual string) *Violation {
	v := &Violation{Property: id, Sub: sub, Sig: sig, Cfg: cfg, Ops: ops, Detail: Clip(detail, 2000),
		Expected: Clip(expected, 4000), Actual: Clip(actual, 4000)}
	if input != nil {
		v.input = append([]byte{}, input...)
		v.InputB64 = base64.StdEncoding.EncodeToString(input)
		v.InputQ = Q(input)
	}
	return v
}

// ViolationCount returns the number of distinct violation signatures so far.
func (r *Run) ViolationCount() int {
	r.mu.Lock()
	defer r.mu.Unlock()
	return len(r.vios)
}

// LoadFindings reads known_findings.json (read-only at run time).
func (r *Run) LoadFindings() []Finding {
	b, err := os.ReadFile(filepath.Join(r.Verif, "known_findings.json"))
	if err != nil {
		return nil
	}
	var f struct {
		Findings []Finding `json:"findings"`
	}
	if json.Unmarshal(b, &f) != nil {
		return nil
	}
	return f.Findings
}

// Finish writes the evidence file and replay artefacts, prints the verdict lines and returns the exit code.
func (r *Run) Finish() int {
	wall := time.Since(r.Start).Seconds()
	known := map[string]Finding{}
	for _, f := range r.LoadFindings() {
		if f.Status == "known" && f.Property == r.ID {
			known[f.Sig] = f
		}
	}
	sort.Strings(r.vkeys)
	var real []*Violation
	knownSeen := map[string]int64{}
	for _, k := range r.vkeys {
		v := r.vios[k]
		if _, ok := known[v.Sig]; ok {
			knownSeen[v.Sig] += v.Count
			continue
		}
		real = append(real, v)
	}
	sort.SliceStable(real, func(i, j int) bool { return real[i].weight < real[j].weight })

	// evidence
	cov := map[string]any{}
	var evals, states, trans, distinct int64
	exhaustive := true
	var rules []string
	var samples []any
	var subs []map[string]any
	for _, s := range r.subs {
		if s.Companion {
			m := map[string]any{"name": s.Name, "companion_pass_not_part_of_the_exhaustive_claim": true, "evaluations": s.Evals.Load(),
				"exhaustive": false, "bound": s.Bound, "wall_s": s.wall, "rule": s.Rule, "notes": s.Notes}
			subs = append(subs, m)
			continue
		}
		evals += s.Evals.Load()
		st, tr := s.States.Load(), s.Transitions.Load()
		if st == 0 {
			st = s.Evals.Load()
		}
		if tr == 0 {
			tr = s.Evals.Load()
		}
		states += st
		trans += tr
		distinct += s.dcount.Load()
		exhaustive = exhaustive && s.Exhaustive
		rules = append(rules, s.Name+": "+s.Rule)
		for i, x := range s.samples {
			if i < 4 {
				samples = append(samples, map[string]any{"sub": s.Name, "case": x})
			}
		}
		m := map[string]any{"name": s.Name, "evaluations": s.Evals.Load(), "states": st, "transitions": tr,
			"distinct_nontrivial": s.dcount.Load(), "distinct_capped": s.dcapped.Load(), "exhaustive": s.Exhaustive,
			"bound": s.Bound, "planned": s.Planned, "wall_s": s.wall, "rule": s.Rule}
		if len(s.Notes) > 0 {
			m["notes"] = s.Notes
		}
		for k, v := range s.Extra {
			m[k] = v
		}
		subs = append(subs, m)
	}
	if len(samples) == 0 {
		samples = append(samples, "no case executed")
	}
	cov["evaluations"] = evals
	cov["distinct_nontrivial"] = distinct
	cov["rule"] = strings.Join(rules, " || ")
	cov["samples"] = samples
	cov["states"] = states
	cov["transitions"] = trans
	cov["traces_validated_against_impl"] = evals
	cov["exhaustive"] = exhaustive
	cov["sub_checks"] = subs
	var kf []map[string]any
	for sig, n := range knownSeen {
		kf = append(kf, map[string]any{"sig": sig, "cases": n})
	}
	if kf != nil {
		cov["known_findings_observed"] = kf
	}
	ev := map[string]any{"property_id": r.ID, "tier": r.Tier, "seed": r.Seed, "level": r.Level, "coverage": cov,
		"assumptions": append([]string{}, r.Assume...), "wall_s": wall, "violations": len(real)}
	b, _ := json.MarshalIndent(ev, "", " ")
	_ = os.MkdirAll(filepath.Join(r.Verif, "evidence"), 0o755)
	if os.Getenv("VERIF_NO_EVIDENCE") == "" {
		if err := os.WriteFile(filepath.Join(r.Verif, "evidence", r.ID+".json"), append(b, '\n'), 0o644); err != nil {
			fmt.Println("cannot write evidence:", err)
		}
	}

	var ksigs []string
	for sig := range knownSeen {
		ksigs = append(ksigs, sig)
	}
	sort.Strings(ksigs)
	for _, sig := range ksigs {
		fmt.Printf("KNOWN-FINDING: property=%s sig=%s cases=%d %s\n", r.ID, sig, knownSeen[sig], known[sig].What)
	}
	fmt.Printf("%s %s: evals=%d states=%d transitions=%d distinct=%d exhaustive=%v wall=%.1fs violations=%d\n",
		r.ID, r.Tier, evals, states, trans, distinct, exhaustive, wall, len(real))
	if len(real) == 0 {
		return 0
	}
	dir := os.Getenv("VERIF_REPLAY_DIR")
	if dir == "" {
		dir = filepath.Join(r.Verif, "replays")
	}
	_ = os.MkdirAll(dir, 0o755)
	for i, v := range real {
		if i >= 25 {
			fmt.Printf("... %d more violation signatures not listed\n", len(real)-i)
			break
		}
		if v.GoTest == "" && v.input != nil {
			if c, err := ParseCfg(v.Cfg); err == nil {
				// a plain unit test that replays the input without the explorer
				v.GoTest = GoTestFor(c, v.input, v.Detail)
			}
		}
		jb, _ := json.MarshalIndent(v, "", " ")
		sum := sha1.Sum(jb)
		p := filepath.Join(dir, fmt.Sprintf("%s-%s.json", r.ID, hex.EncodeToString(sum[:5])))
		_ = os.WriteFile(p, append(jb, '\n'), 0o644)
		what := v.InputQ
		if what == "" {
			ob, _ := json.Marshal(v.Ops)
			what = string(ob)
		}
		fmt.Printf("VIOLATION property=%s replay=%s sub=%s sig=%s cfg=%s cases=%d input=%s :: %s\n",
			r.ID, p, v.Sub, v.Sig, v.Cfg, v.Count, Clip(what, 200), Clip(v.Detail, 300))
	}
	if r.other > 0 {
		fmt.Printf("(+%d violations beyond the signature table)\n", r.other)
	}
	return 1
}

// ReadReplay loads a replay file.
func ReadReplay(path string) (*Violation, error) {
	b, err := os.ReadFile(path)
	if err != nil {
		return nil, err
	}
	v := &Violation{}
	if err := json.Unmarshal(b, v); err != nil {
		return nil, err
	}
	if v.InputB64 != "" {
		v.input, err = base64.StdEncoding.DecodeString(v.InputB64)
		if err != nil {
			return nil, err
		}
	}
	return v, nil
}
