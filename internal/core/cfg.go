package core

import (
	"bytes"
	"fmt"
	"regexp"
	"runtime/debug"
	"sort"
	"strconv"
	"strings"

	"github.com/yuin/goldmark"
	"github.com/yuin/goldmark/ast"
	"github.com/yuin/goldmark/extension"
	"github.com/yuin/goldmark/parser"
	"github.com/yuin/goldmark/renderer"
	"github.com/yuin/goldmark/renderer/html"
	"github.com/yuin/goldmark/text"
	"github.com/yuin/goldmark/util"
)

// Cfg is one point of the built-in configuration lattice.
type Cfg struct {
	Ext       string // see ExtNames
	AutoID    bool
	Attr      bool
	Unsafe    bool
	XHTML     bool
	HardWraps bool
	Align     string // "", "attr", "style": pins the table cell alignment method
	AttrAll   bool   // an AST transformer gives every node of the tree a data attribute (attributes that cannot be written in Markdown reach every element's attribute rendering)
	Via       int    // 0 = standard channel; otherwise the index into Channels through which New hands over the options
	Explicit  bool   // the renderer switches that are off are passed explicitly as renderer.WithOption(name, false)
}

// ExtNames is the extension axis of the lattice.
var ExtNames = []string{"core", "table", "strike", "linkify", "tasklist", "gfm", "deflist", "footnote",
	"typographer", "cjk-simple", "cjk-css3", "cjk-esc", "all", "all+cjk", "custom", "custom2"}

func (c Cfg) String() string {
	s := c.Ext
	if c.AutoID {
		s += "+autoid"
	}
	if c.Attr {
		s += "+attr"
	}
	if c.Unsafe {
		s += "+unsafe"
	}
	if c.XHTML {
		s += "+xhtml"
	}
	if c.HardWraps {
		s += "+hardwraps"
	}
	if c.Align != "" {
		s += "+align=" + c.Align
	}
	if c.Via != 0 {
		s += fmt.Sprintf("+via=%d", c.Via)
	}
	if c.AttrAll {
		s += "+attrall"
	}
	if c.Explicit {
		s += "+explicit"
	}
	return s
}

// ParseCfg is the inverse of String.
func ParseCfg(s string) (Cfg, error) {
	var c Cfg
	// ext names may contain '+': match the longest known name first
	names := append([]string{}, ExtNames...)
	sort.Slice(names, func(i, j int) bool { return len(names[i]) > len(names[j]) })
	found := false
	if strings.HasPrefix(s, "x:") {
		end := strings.IndexByte(s, '+')
		if end < 0 {
			end = len(s)
		}
		c.Ext = s[:end]
		s = strings.TrimPrefix(s[end:], "+")
		found = true
	}
	for _, n := range names {
		if found {
			break
		}
		if s == n || strings.HasPrefix(s, n+"+") {
			c.Ext = n
			s = strings.TrimPrefix(strings.TrimPrefix(s, n), "+")
			found = true
			break
		}
	}
	if !found {
		return c, fmt.Errorf("unknown configuration %q", s)
	}
	for _, f := range strings.Split(s, "+") {
		switch {
		case f == "":
		case f == "autoid":
			c.AutoID = true
		case f == "attr":
			c.Attr = true
		case f == "unsafe":
			c.Unsafe = true
		case f == "xhtml":
			c.XHTML = true
		case f == "hardwraps":
			c.HardWraps = true
		case f == "explicit":
			c.Explicit = true
		case strings.HasPrefix(f, "align="):
			c.Align = strings.TrimPrefix(f, "align=")
		case f == "attrall":
			c.AttrAll = true
		case strings.HasPrefix(f, "via="):
			c.Via, _ = strconv.Atoi(strings.TrimPrefix(f, "via="))
		default:
			return c, fmt.Errorf("unknown flag %q", f)
		}
	}
	return c, nil
}

// MustCfg parses or panics (for literals in check code).
func MustCfg(s string) Cfg {
	c, err := ParseCfg(s)
	if err != nil {
		panic(err)
	}
	return c
}

func (c Cfg) alignMethod() (m extension.TableCellAlignMethod, ok bool) {
	switch strings.TrimSuffix(c.Align, "-ro") {
	case "attr":
		return extension.TableCellAlignAttribute, true
	case "style":
		return extension.TableCellAlignStyle, true
	case "default":
		return extension.TableCellAlignDefault, true
	}
	return 0, false
}

// tableOpts: the alignment method as an option of NewTable; with the suffix "-ro" it is handed over as a renderer option
// instead (RendererOptions), the other documented channel.
func (c Cfg) tableOpts() []extension.TableOption {
	if m, ok := c.alignMethod(); ok && !strings.HasSuffix(c.Align, "-ro") {
		return []extension.TableOption{extension.WithTableCellAlignMethod(m)}
	}
	return nil
}

// Extenders returns the goldmark extensions of this configuration.
func (c Cfg) Extenders() []goldmark.Extender {
	tbl := extension.NewTable(c.tableOpts()...)
	gfm := []goldmark.Extender{extension.Linkify, tbl, extension.Strikethrough, extension.TaskList}
	all := append(append([]goldmark.Extender{}, gfm...), extension.DefinitionList, extension.Footnote, extension.Typographer)
	if strings.HasPrefix(c.Ext, "x:") {
		var out []goldmark.Extender
		for _, m := range strings.Split(strings.TrimPrefix(c.Ext, "x:"), ",") {
			switch m {
			case "":
			case "linkify":
				out = append(out, extension.Linkify)
			case "table":
				out = append(out, tbl)
			case "strike":
				out = append(out, extension.Strikethrough)
			case "tasklist":
				out = append(out, extension.TaskList)
			case "deflist":
				out = append(out, extension.DefinitionList)
			case "footnote":
				out = append(out, extension.Footnote)
			case "typographer":
				out = append(out, extension.Typographer)
			case "gfm":
				out = append(out, extension.GFM)
			case "cjk":
				out = append(out, extension.CJK)
			case "footnote-opt", "table-opt", "linkify-opt", "typographer-opt":
				out = append(out, OptionBearing(m))
			default:
				if strings.HasPrefix(m, "typo.") {
					out = append(out, TypographerVariant(m))
					break
				}
				out = append(out, Cfg{Ext: m}.Extenders()...)
			}
		}
		return out
	}
	switch c.Ext {
	case "core":
		return nil
	case "table":
		return []goldmark.Extender{tbl}
	case "strike":
		return []goldmark.Extender{extension.Strikethrough}
	case "linkify":
		return []goldmark.Extender{extension.Linkify}
	case "tasklist":
		return []goldmark.Extender{extension.TaskList}
	case "gfm":
		if c.Align == "" {
			return []goldmark.Extender{extension.GFM}
		}
		return gfm
	case "deflist":
		return []goldmark.Extender{extension.DefinitionList}
	case "footnote":
		return []goldmark.Extender{extension.Footnote}
	case "typographer":
		return []goldmark.Extender{extension.Typographer}
	case "cjk-simple":
		return []goldmark.Extender{extension.NewCJK(extension.WithEastAsianLineBreaks(extension.EastAsianLineBreaksSimple))}
	case "cjk-css3":
		return []goldmark.Extender{extension.NewCJK(extension.WithEastAsianLineBreaks(extension.EastAsianLineBreaksCSS3Draft))}
	case "cjk-esc":
		return []goldmark.Extender{extension.NewCJK(extension.WithEscapedSpace())}
	case "all":
		return all
	case "all+cjk":
		return append(all, extension.CJK)
	case "custom":
		return CustomExtenders()
	case "custom2":
		return Custom2Extenders()
	}
	panic("unknown ext " + c.Ext)
}

// OptionBearing returns one extension built through its option-bearing constructor with every option it has, including
// the wrapped html renderer options (XHTML, HardWraps, Unsafe) that are documented to apply to the extension's own nodes.
func OptionBearing(name string) goldmark.Extender {
	hopts := []html.Option{html.WithXHTML(), html.WithHardWraps(), html.WithUnsafe()}
	switch name {
	case "footnote-opt":
		return extension.NewFootnote(
			extension.WithFootnoteHTMLOptions(hopts...),
			extension.WithFootnoteIDPrefix("fn-"),
			extension.WithFootnoteLinkTitle("note ^^ (%%)"),
			extension.WithFootnoteBacklinkTitle("back ^^ (%%)"),
			extension.WithFootnoteLinkClass("lc-^^"),
			extension.WithFootnoteBacklinkClass("bc-%%"),
			extension.WithFootnoteBacklinkHTML("^^:%%"),
		)
	case "table-opt":
		return extension.NewTable(extension.WithTableHTMLOptions(hopts...), extension.WithTableCellAlignMethod(extension.TableCellAlignStyle))
	case "linkify-opt":
		return extension.NewLinkify(
			extension.WithLinkifyAllowedProtocols([]string{"http:", "https:", "go:"}),
			extension.WithLinkifyURLRegexp(regexp.MustCompile(`^(?:http|https|go)://[-a-zA-Z0-9@:%._+~#=/?&]+[a-zA-Z0-9/]`)),
			extension.WithLinkifyWWWRegexp(regexp.MustCompile(`^www\.[-a-zA-Z0-9.]+[a-z]`)),
			extension.WithLinkifyEmailRegexp(regexp.MustCompile(`^[a-z0-9.]+@[a-z0-9]+\.[a-z]{2,}`)),
		)
	case "typographer-opt":
		return extension.NewTypographer(extension.WithTypographicSubstitutions(map[extension.TypographicPunctuation]string{
			extension.LeftDoubleQuote: "&laquo;", extension.RightDoubleQuote: "&raquo;", extension.EnDash: "&ndash;&ndash;", extension.Ellipsis: "&hellip;.",
			extension.LeftSingleQuote: "&lsaquo;", extension.RightSingleQuote: "&rsaquo;", extension.EmDash: "&#8212;", extension.Apostrophe: "&#39;",
		}))
	}
	panic("unknown option-bearing extension " + name)
}

// TypographerVariant builds the Typographer with one substitution (or all of them) replaced: "typo.<n>.<kind>" with n the
// number of the punctuation (1 = LeftSingleQuote … 10 = Apostrophe) or "all", and kind one of nil (the documented way to
// switch a substitution off), empty (a non-nil empty value) and str (a custom character reference).
func TypographerVariant(name string) goldmark.Extender {
	f := strings.Split(name, ".")
	if len(f) != 3 {
		panic("bad typographer variant " + name)
	}
	m := map[extension.TypographicPunctuation][]byte{}
	set := func(k int) {
		switch f[2] {
		case "nil":
			m[extension.TypographicPunctuation(k)] = nil
		case "empty":
			m[extension.TypographicPunctuation(k)] = []byte{}
		case "str":
			m[extension.TypographicPunctuation(k)] = []byte(fmt.Sprintf("&#%d;", 9000+k))
		default:
			panic("bad typographer variant " + name)
		}
	}
	if f[1] == "all" {
		for k := 1; k <= 10; k++ {
			set(k)
		}
	} else {
		k, err := strconv.Atoi(f[1])
		if err != nil || k < 1 || k > 10 {
			panic("bad typographer variant " + name)
		}
		set(k)
	}
	return extension.NewTypographer(extension.WithTypographicSubstitutions(m))
}

// TypographerVariants lists every variant name.
func TypographerVariants() []string {
	var out []string
	for _, kind := range []string{"nil", "empty", "str"} {
		out = append(out, "typo.all."+kind)
		for k := 1; k <= 10; k++ {
			out = append(out, fmt.Sprintf("typo.%d.%s", k, kind))
		}
	}
	return out
}

// CustomExtenders builds every extension through its option-bearing constructor with every extension option set to a
// non-default value held in the instance (id prefixes, title and class templates, substitution tables, regular
// expressions, protocol lists): the values an instance shares between all its conversions.
func CustomExtenders() []goldmark.Extender {
	return []goldmark.Extender{
		extension.NewLinkify(
			extension.WithLinkifyAllowedProtocols([]string{"http:", "https:", "go:"}),
			extension.WithLinkifyWWWRegexp(regexp.MustCompile(`^www\.[-a-zA-Z0-9.]+[a-z]`)),
		),
		extension.NewTable(extension.WithTableCellAlignMethod(extension.TableCellAlignStyle)),
		extension.Strikethrough,
		extension.TaskList,
		extension.DefinitionList,
		extension.NewFootnote(
			extension.WithFootnoteIDPrefix("fn-"),
			extension.WithFootnoteLinkTitle("note ^^ (%%)"),
			extension.WithFootnoteBacklinkTitle("back ^^ (%%)"),
			extension.WithFootnoteLinkClass("lc-^^"),
			extension.WithFootnoteBacklinkClass("bc-%%"),
			extension.WithFootnoteBacklinkHTML("^^:%%"),
		),
		extension.NewTypographer(extension.WithTypographicSubstitutions(map[extension.TypographicPunctuation]string{
			extension.LeftDoubleQuote: "&laquo;", extension.RightDoubleQuote: "&raquo;", extension.EnDash: "&ndash;&ndash;", extension.Ellipsis: "&hellip;.",
		})),
		extension.NewCJK(extension.WithEastAsianLineBreaks(extension.EastAsianLineBreaksCSS3Draft), extension.WithEscapedSpace()),
	}
}

// Custom2Extenders is a second option-bearing configuration, using the options CustomExtenders does not: an id-prefix
// function, an e-mail and a URL regular expression for Linkify, substitutions switched off (nil entries), the attribute
// method for table alignment, simple East Asian line breaks.
func Custom2Extenders() []goldmark.Extender {
	return []goldmark.Extender{
		extension.NewTable(extension.WithTableCellAlignMethod(extension.TableCellAlignAttribute)),
		extension.NewLinkify(
			extension.WithLinkifyURLRegexp(regexp.MustCompile(`^(?:http|https|ftp)://[-a-zA-Z0-9@:%._+~#=/?&]+[a-zA-Z0-9/]`)),
			extension.WithLinkifyEmailRegexp(regexp.MustCompile(`^[a-z0-9.]+@[a-z0-9]+\.[a-z]{2,}`)),
		),
		extension.TaskList,
		extension.Strikethrough,
		extension.NewFootnote(extension.WithFootnoteIDPrefixFunction(func(n ast.Node) []byte {
			return []byte("doc" + n.Kind().String()[:1] + "-")
		})),
		extension.DefinitionList,
		extension.NewTypographer(extension.WithTypographicSubstitutions(map[extension.TypographicPunctuation][]byte{
			extension.LeftSingleQuote: nil, extension.RightSingleQuote: nil, extension.EmDash: []byte("&#8212;"), extension.LeftAngleQuote: []byte("&#171;"), extension.Apostrophe: nil,
		})),
		extension.NewCJK(extension.WithEastAsianLineBreaks(extension.EastAsianLineBreaksSimple)),
	}
}

// ParserOptions returns the parser options of this configuration.
func (c Cfg) ParserOptions() []parser.Option {
	var po []parser.Option
	if c.AutoID {
		po = append(po, parser.WithAutoHeadingID())
	}
	if c.Attr {
		po = append(po, parser.WithAttribute())
	}
	if c.AttrAll {
		po = append(po, parser.WithASTTransformers(util.Prioritized(attrAll{}, 100000)))
	}
	return po
}

// attrAll is an AST transformer that sets data-n="v" on every node.
type attrAll struct{}

func (attrAll) Transform(doc *ast.Document, reader text.Reader, pc parser.Context) {
	_ = ast.Walk(doc, func(n ast.Node, entering bool) (ast.WalkStatus, error) {
		if entering && n.Kind() != ast.KindDocument {
			// a data attribute only: an attribute name that a built-in renderer writes itself (class on footnote links,
			// align on cells) would legitimately come out twice
			n.SetAttributeString("data-n", []byte("v"))
		}
		return ast.WalkContinue, nil
	})
}

// RendererOptions returns the renderer options of this configuration.
func (c Cfg) RendererOptions() []renderer.Option {
	var ro []renderer.Option
	if c.Unsafe {
		ro = append(ro, html.WithUnsafe())
	}
	if c.XHTML {
		ro = append(ro, html.WithXHTML())
	}
	if c.HardWraps {
		ro = append(ro, html.WithHardWraps())
	}
	if m, ok := c.alignMethod(); ok && strings.HasSuffix(c.Align, "-ro") {
		ro = append(ro, extension.WithTableCellAlignMethod(m))
	}
	return ro
}

// New builds a fresh Markdown instance for this configuration.
func (c Cfg) New() goldmark.Markdown {
	if c.Explicit {
		return c.NewVia(4)
	}
	if c.Via != 0 {
		return c.NewVia(c.Via)
	}
	return goldmark.New(goldmark.WithExtensions(c.Extenders()...),
		goldmark.WithParserOptions(c.ParserOptions()...),
		goldmark.WithRendererOptions(c.RendererOptions()...))
}

// Channels lists the ways NewVia can hand the same options to the library.
var Channels = []string{"standard", "direct-constructors", "late-AddOptions", "split", "explicit-false", "heading-parser-constructors", "generic-parser-WithOption", "one-With-call-per-option", "SetParser-SetRenderer"}

// explicitRendererOptions returns the renderer options of c with every switch that is off passed explicitly as
// renderer.WithOption(name, false) (the generic option channel every node renderer's SetOption sees).
func (c Cfg) explicitRendererOptions() []renderer.Option {
	ro := c.RendererOptions()
	if !c.Unsafe {
		ro = append(ro, renderer.WithOption("Unsafe", false))
	}
	if !c.XHTML {
		ro = append(ro, renderer.WithOption("XHTML", false))
	}
	if !c.HardWraps {
		ro = append(ro, renderer.WithOption("HardWraps", false))
	}
	return ro
}

func (c Cfg) htmlOptions() []html.Option {
	var ro []html.Option
	if c.Unsafe {
		ro = append(ro, html.WithUnsafe())
	}
	if c.XHTML {
		ro = append(ro, html.WithXHTML())
	}
	if c.HardWraps {
		ro = append(ro, html.WithHardWraps())
	}
	return ro
}

// NewVia builds an instance of this configuration through another registration channel of the public API:
//
//	0 standard:            goldmark.New(WithExtensions, WithParserOptions, WithRendererOptions)  (= New)
//	1 direct-constructors: the parser and the renderer are built by hand (parser.NewParser with the default parser lists and
//	                       the parser options, renderer.NewRenderer with html.NewRenderer(<html options>) at priority 1000)
//	                       and handed over with WithParser/WithRenderer; only meaningful without extensions, because options
//	                       given to html.NewRenderer are by design not propagated to the renderers of extensions
//	2 late-AddOptions:     goldmark.New(WithExtensions) first, then Parser().AddOptions / Renderer().AddOptions
//	3 split:               parser options through New, renderer options one AddOptions call each, in reverse order
//	4 explicit-false:      as standard, plus renderer.WithOption(name, false) for every renderer switch that is off
func (c Cfg) NewVia(ch int) goldmark.Markdown {
	switch ch {
	case 1:
		po := append([]parser.Option{parser.WithBlockParsers(parser.DefaultBlockParsers()...),
			parser.WithInlineParsers(parser.DefaultInlineParsers()...),
			parser.WithParagraphTransformers(parser.DefaultParagraphTransformers()...)}, c.ParserOptions()...)
		rd := renderer.NewRenderer(renderer.WithNodeRenderers(util.Prioritized(html.NewRenderer(c.htmlOptions()...), 1000)))
		return goldmark.New(goldmark.WithParser(parser.NewParser(po...)), goldmark.WithRenderer(rd), goldmark.WithExtensions(c.Extenders()...))
	case 2:
		m := goldmark.New(goldmark.WithExtensions(c.Extenders()...))
		m.Parser().AddOptions(c.ParserOptions()...)
		m.Renderer().AddOptions(c.RendererOptions()...)
		return m
	case 3:
		m := goldmark.New(goldmark.WithExtensions(c.Extenders()...), goldmark.WithParserOptions(c.ParserOptions()...))
		ro := c.RendererOptions()
		for i := len(ro) - 1; i >= 0; i-- {
			m.Renderer().AddOptions(ro[i])
		}
		return m
	}
	if ch == 4 {
		return goldmark.New(goldmark.WithExtensions(c.Extenders()...), goldmark.WithParserOptions(c.ParserOptions()...),
			goldmark.WithRendererOptions(c.explicitRendererOptions()...))
	}
	if ch == 5 {
		// heading options handed to the heading parsers' own constructors in a hand-built block parser list
		var ho []parser.HeadingOption
		if c.AutoID {
			ho = append(ho, parser.WithAutoHeadingID())
		}
		if c.Attr {
			ho = append(ho, parser.WithHeadingAttribute())
		}
		bps := []util.PrioritizedValue{
			util.Prioritized(parser.NewSetextHeadingParser(ho...), 100),
			util.Prioritized(parser.NewThematicBreakParser(), 200),
			util.Prioritized(parser.NewListParser(), 300),
			util.Prioritized(parser.NewListItemParser(), 400),
			util.Prioritized(parser.NewCodeBlockParser(), 500),
			util.Prioritized(parser.NewATXHeadingParser(ho...), 600),
			util.Prioritized(parser.NewFencedCodeBlockParser(), 700),
			util.Prioritized(parser.NewBlockquoteParser(), 800),
			util.Prioritized(parser.NewHTMLBlockParser(), 900),
			util.Prioritized(parser.NewParagraphParser(), 1000),
		}
		p := parser.NewParser(parser.WithBlockParsers(bps...), parser.WithInlineParsers(parser.DefaultInlineParsers()...),
			parser.WithParagraphTransformers(parser.DefaultParagraphTransformers()...))
		return goldmark.New(goldmark.WithParser(p), goldmark.WithExtensions(c.Extenders()...), goldmark.WithRendererOptions(c.RendererOptions()...))
	}
	if ch == 8 {
		// parser and renderer built by hand and installed with SetParser / SetRenderer (core only: the setters replace
		// what extensions registered)
		po := append([]parser.Option{parser.WithBlockParsers(parser.DefaultBlockParsers()...),
			parser.WithInlineParsers(parser.DefaultInlineParsers()...),
			parser.WithParagraphTransformers(parser.DefaultParagraphTransformers()...)}, c.ParserOptions()...)
		m := goldmark.New()
		m.SetParser(parser.NewParser(po...))
		m.SetRenderer(renderer.NewRenderer(renderer.WithNodeRenderers(util.Prioritized(html.NewRenderer(c.htmlOptions()...), 1000))))
		return m
	}
	if ch == 7 {
		// every option in a With…Options call of its own, extension first, followed by empty calls
		opts := []goldmark.Option{goldmark.WithExtensions(c.Extenders()...)}
		for _, o := range c.ParserOptions() {
			opts = append(opts, goldmark.WithParserOptions(o))
		}
		for _, o := range c.RendererOptions() {
			opts = append(opts, goldmark.WithRendererOptions(o))
		}
		opts = append(opts, goldmark.WithParserOptions(), goldmark.WithRendererOptions(), goldmark.WithExtensions())
		return goldmark.New(opts...)
	}
	if ch == 6 {
		// parser options through the generic name/value channel
		var po []parser.Option
		if c.AutoID {
			po = append(po, parser.WithOption(parser.OptionName("AutoHeadingID"), true))
		}
		if c.Attr {
			po = append(po, parser.WithOption(parser.OptionName("Attribute"), true))
		}
		return goldmark.New(goldmark.WithExtensions(c.Extenders()...), goldmark.WithParserOptions(po...), goldmark.WithRendererOptions(c.RendererOptions()...))
	}
	cc := c
	cc.Explicit = false
	cc.Via = 0
	return cc.New()
}

// GoExpr returns Go source that builds this configuration (for generated replay tests).
func (c Cfg) GoExpr() string {
	ext := map[string]string{
		"core": "", "table": "extension.Table", "strike": "extension.Strikethrough", "linkify": "extension.Linkify",
		"tasklist": "extension.TaskList", "gfm": "extension.GFM", "deflist": "extension.DefinitionList",
		"footnote": "extension.Footnote", "typographer": "extension.Typographer",
		"cjk-simple": "extension.NewCJK(extension.WithEastAsianLineBreaks())",
		"cjk-css3":   "extension.NewCJK(extension.WithEastAsianLineBreaks(extension.EastAsianLineBreaksCSS3Draft))",
		"cjk-esc":    "extension.NewCJK(extension.WithEscapedSpace())",
		"all":        "extension.GFM, extension.DefinitionList, extension.Footnote, extension.Typographer",
		"all+cjk":    "extension.GFM, extension.DefinitionList, extension.Footnote, extension.Typographer, extension.CJK",
	}[c.Ext]
	if strings.HasPrefix(c.Ext, "x:") {
		ext = "/* extensions in this order: " + strings.TrimPrefix(c.Ext, "x:") + " */"
	}
	var po, ro []string
	if c.AutoID {
		po = append(po, "parser.WithAutoHeadingID()")
	}
	if c.Attr {
		po = append(po, "parser.WithAttribute()")
	}
	if c.Unsafe {
		ro = append(ro, "html.WithUnsafe()")
	}
	if c.XHTML {
		ro = append(ro, "html.WithXHTML()")
	}
	if c.HardWraps {
		ro = append(ro, "html.WithHardWraps()")
	}
	return fmt.Sprintf("goldmark.New(goldmark.WithExtensions(%s), goldmark.WithParserOptions(%s), goldmark.WithRendererOptions(%s))",
		ext, strings.Join(po, ", "), strings.Join(ro, ", "))
}

// Lattice returns the full configuration lattice (ext × parser opts × renderer opts).
func Lattice() []Cfg {
	var out []Cfg
	for _, e := range ExtNames {
		for m := 0; m < 32; m++ {
			out = append(out, Cfg{Ext: e, AutoID: m&1 != 0, Attr: m&2 != 0, Unsafe: m&4 != 0, XHTML: m&8 != 0, HardWraps: m&16 != 0})
		}
	}
	return out
}

// Conv wraps one Markdown instance with a reusable buffer and panic capture.
type Conv struct {
	Cfg  Cfg
	MD   goldmark.Markdown
	Site string // innermost goldmark frame of the last recovered panic
	buf  bytes.Buffer
	buf2 bytes.Buffer
	// Borrowed makes Convert hand the caller's slice itself to the library (needed where the memory of the source is the
	// point, as in the read-only pages of C12). Otherwise Convert behaves like a caller that owns and reuses its source
	// buffer: the source is copied into a buffer private to this Conv, converted from there, and the buffer is overwritten
	// with markup-significant garbage as soon as the call has returned — anything the instance keeps that still points
	// into an earlier source shows up in a later result.
	Borrowed bool
	src      []byte
}

const scribble = "<s \"&'>\n[x](javascript:y)\n# "

// PanicSite extracts the innermost goldmark function from the current goroutine's stack (call inside recover).
func PanicSite() string {
	st := string(debug.Stack())
	i := strings.Index(st, "panic(")
	if i < 0 {
		i = 0
	}
	for _, ln := range strings.Split(st[i:], "\n") {
		if strings.HasPrefix(ln, "github.com/yuin/goldmark") {
			if j := strings.LastIndex(ln, "("); j > 0 {
				ln = ln[:j]
			}
			return strings.TrimPrefix(ln, "github.com/yuin/goldmark")
		}
	}
	return "?"
}

// NewConv builds a converter for cfg.
func NewConv(c Cfg) *Conv { return &Conv{Cfg: c, MD: c.New()} }

// Convert runs MD.Convert; the returned slice is valid until the next call. pan is the recovered panic, if any.
func (c *Conv) Convert(src []byte) (out []byte, err error, pan any) {
	defer func() {
		if p := recover(); p != nil {
			pan = p
			out = nil
			c.Site = PanicSite()
		}
	}()
	c.buf.Reset()
	if c.Borrowed {
		err = c.MD.Convert(src, &c.buf)
		return c.buf.Bytes(), err, nil
	}
	n := len(src)
	c.src = append(c.src[:0], src...)
	defer func() {
		for i := 0; i < n; i++ {
			c.src[i] = scribble[i%len(scribble)]
		}
	}()
	err = c.MD.Convert(c.src[:n:n], &c.buf)
	return c.buf.Bytes(), err, nil
}

// Parse runs the parser only.
func (c *Conv) Parse(src []byte) (doc ast.Node, pan any) {
	defer func() {
		if p := recover(); p != nil {
			pan = p
			doc = nil
			c.Site = PanicSite()
		}
	}()
	return c.MD.Parser().Parse(text.NewReader(src)), nil
}

// Render renders a parsed tree; the returned slice is valid until the next call on this Conv.
func (c *Conv) Render(src []byte, doc ast.Node) (out []byte, err error, pan any) {
	defer func() {
		if p := recover(); p != nil {
			pan = p
			out = nil
			c.Site = PanicSite()
		}
	}()
	c.buf2.Reset()
	err = c.MD.Renderer().Render(&c.buf2, src, doc)
	return c.buf2.Bytes(), err, nil
}

// GoTestFor returns a stand-alone Go test reproducing a conversion.
func GoTestFor(c Cfg, input []byte, expect string) string {
	return fmt.Sprintf(`package replay_test

import (
	"bytes"
	"testing"

	"github.com/yuin/goldmark"
	"github.com/yuin/goldmark/extension"
	"github.com/yuin/goldmark/parser"
	"github.com/yuin/goldmark/renderer/html"
)

var _ = extension.GFM
var _ = parser.WithAttribute
var _ = html.WithUnsafe

func TestReplay(t *testing.T) {
	md := %s
	var buf bytes.Buffer
	err := md.Convert([]byte(%q), &buf)
	t.Logf("err=%%v output=%%q", err, buf.String())
	// expectation: %s
}
`, c.GoExpr(), string(input), strings.ReplaceAll(expect, "\n", " "))
}
