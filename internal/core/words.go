package core

import (
	"sync"
	"sync/atomic"
)

// CountWords is Σ_{i=1..n} k^i, the number of non-empty words of length ≤ n over k tokens.
func CountWords(k, n int) int64 {
	var t, p int64 = 0, 1
	for i := 1; i <= n; i++ {
		p *= int64(k)
		t += p
	}
	return t
}

// Standard token alphabets (simplest token first, so that the first counter-example is short).
var (
	ABlock  = []string{"a", " ", "\n", ">", "-", "1.", "#", "`", "~", "=", "*", "+"}
	AInline = []string{"a", " ", "\n", "*", "_", "`", "[", "]", "(", ")", "<", ">", "!", "\\", "&", ";"}
	AHTML   = []string{"a", " ", "\n", "<!--", "-->", "<?", "?>", "<!A", "<![CDATA[", "]]>", ">", "<pre>", "</pre>", "<div>", "="}
	AExt    = []string{"a", " ", "\n", "|", "-", ":", "~", "[^1]", "[^1]:", "- [ ] ", "www.a.bc", "http://a.bc", "a@b.cd", "\""}
	ATab    = []string{"c", "\t", " ", "\n", ">", "-", "1.", "```", "~~~", "#", "    "}
	ABytes  = []string{"a", "\n", " ", "*", "\x00", "\x80", "\xc3", "\xe3\x81", "あ", "\r", "\t", "\xff", "\u200b"}
	ANasty  = []string{"\"", "<", ">", "&", "'", "\\", "a", ";", "#", "&quot;", "&#34;", "\\\"", "\x00", " ", "\xc3", "\xf0", "\n"}
)

// Union returns the de-duplicated union of alphabets, in first-seen order.
func Union(as ...[]string) []string {
	seen := map[string]bool{}
	var out []string
	for _, a := range as {
		for _, t := range a {
			if !seen[t] {
				seen[t] = true
				out = append(out, t)
			}
		}
	}
	return out
}

// Without returns a minus every token for which drop is true.
func Without(a []string, drop func(string) bool) []string {
	var out []string
	for _, t := range a {
		if !drop(t) {
			out = append(out, t)
		}
	}
	return out
}

// ForEachWord visits every non-empty word of at most n tokens over alphabet a exactly once.
// Work is sharded on the first two tokens over nw workers; newWorker is called once per worker
// and returns the visitor (the word slice is only valid during the call). If stop returns true
// the remaining shards are skipped and complete=false is returned.
func ForEachWord(a []string, n, nw int, newWorker func(w int) func(word []byte), stop func() bool) (visited int64, complete bool) {
	if n <= 0 || len(a) == 0 {
		return 0, true
	}
	k := len(a)
	type task struct{ i, j int } // j<0: all words of length 1 (only in task i==-1)
	tasks := []task{{-1, -1}}
	if n >= 2 {
		for i := 0; i < k; i++ {
			for j := 0; j < k; j++ {
				tasks = append(tasks, task{i, j})
			}
		}
	}
	var next atomic.Int64
	var total atomic.Int64
	var skipped atomic.Bool
	var wg sync.WaitGroup
	for w := 0; w < nw; w++ {
		wg.Add(1)
		go func(w int) {
			defer wg.Done()
			visit := newWorker(w)
			buf := make([]byte, 0, 256)
			var cnt int64
			var rec func(depth int)
			rec = func(depth int) {
				visit(buf)
				cnt++
				if depth == n {
					return
				}
				l := len(buf)
				for _, t := range a {
					buf = append(buf[:l], t...)
					rec(depth + 1)
				}
				buf = buf[:l]
			}
			for {
				ti := int(next.Add(1) - 1)
				if ti >= len(tasks) {
					break
				}
				if stop != nil && stop() {
					skipped.Store(true)
					break
				}
				t := tasks[ti]
				if t.i < 0 {
					for _, tok := range a {
						buf = append(buf[:0], tok...)
						visit(buf)
						cnt++
					}
					continue
				}
				buf = append(buf[:0], a[t.i]...)
				buf = append(buf, a[t.j]...)
				rec(2)
			}
			total.Add(cnt)
		}(w)
	}
	wg.Wait()
	return total.Load(), !skipped.Load()
}

// ForEachIndex runs f(worker, i) for i in [0,n) on nw workers. Returns false if stopped early.
func ForEachIndex(n, nw int, newWorker func(w int) func(i int), stop func() bool) bool {
	var next atomic.Int64
	var skipped atomic.Bool
	var wg sync.WaitGroup
	if nw > n {
		nw = n
	}
	if nw < 1 {
		nw = 1
	}
	for w := 0; w < nw; w++ {
		wg.Add(1)
		go func(w int) {
			defer wg.Done()
			f := newWorker(w)
			for {
				i := int(next.Add(1) - 1)
				if i >= n {
					return
				}
				if stop != nil && stop() {
					skipped.Store(true)
					return
				}
				f(i)
			}
		}(w)
	}
	wg.Wait()
	return !skipped.Load()
}
