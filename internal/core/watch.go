package core

import (
	"sync/atomic"
	"time"
)

// Watchdog detects a worker that stays inside one case for longer than limit. Workers call Begin
// before each case; a stuck case is reported through onHang (which normally records the violation and
// exits the process, since a goroutine cannot be killed).
type Watchdog struct {
	slots []wslot
	stop  chan struct{}
}

type wslot struct {
	tick atomic.Int64
	idle atomic.Bool
	buf  []byte
	tag  string
	_    [40]byte
}

// NewWatchdog starts the monitor.
func NewWatchdog(nw int, limit time.Duration, onHang func(worker int, tag string, input []byte, stuck time.Duration)) *Watchdog {
	w := &Watchdog{slots: make([]wslot, nw), stop: make(chan struct{})}
	for i := range w.slots {
		w.slots[i].idle.Store(true)
	}
	go func() {
		last := make([]int64, nw)
		since := make([]time.Time, nw)
		now := time.Now()
		for i := range since {
			since[i] = now
		}
		t := time.NewTicker(500 * time.Millisecond)
		defer t.Stop()
		for {
			select {
			case <-w.stop:
				return
			case <-t.C:
			}
			now = time.Now()
			for i := range w.slots {
				sl := &w.slots[i]
				tk := sl.tick.Load()
				if tk != last[i] || sl.idle.Load() {
					last[i] = tk
					since[i] = now
					continue
				}
				if d := now.Sub(since[i]); d > limit {
					onHang(i, sl.tag, append([]byte{}, sl.buf...), d)
					since[i] = now
				}
			}
		}
	}()
	return w
}

// Begin marks the start of a case on worker i.
func (w *Watchdog) Begin(i int, tag string, input []byte) {
	sl := &w.slots[i]
	sl.buf = append(sl.buf[:0], input...)
	sl.tag = tag
	sl.idle.Store(false)
	sl.tick.Add(1)
}

// Idle marks worker i as not inside any case.
func (w *Watchdog) Idle(i int) { w.slots[i].idle.Store(true); w.slots[i].tick.Add(1) }

// Stop ends the monitor.
func (w *Watchdog) Stop() { close(w.stop) }
