// Package astcheck validates the structural, kind and position invariants of a parsed tree (C05).
package astcheck

import (
	"fmt"

	"github.com/yuin/goldmark/ast"
	east "github.com/yuin/goldmark/extension/ast"
	"github.com/yuin/goldmark/text"
)

// Problem is one violated clause.
type Problem struct {
	Sig    string // clause:ParentKind>Kind
	Detail string
}

var publicKinds = map[ast.NodeKind]bool{}

func init() {
	for _, k := range []ast.NodeKind{ast.KindDocument, ast.KindTextBlock, ast.KindParagraph, ast.KindHeading,
		ast.KindThematicBreak, ast.KindCodeBlock, ast.KindFencedCodeBlock, ast.KindBlockquote, ast.KindList,
		ast.KindListItem, ast.KindHTMLBlock, ast.KindText, ast.KindString, ast.KindCodeSpan, ast.KindEmphasis,
		ast.KindLink, ast.KindImage, ast.KindAutoLink, ast.KindRawHTML,
		east.KindDefinitionList, east.KindDefinitionTerm, east.KindDefinitionDescription, east.KindFootnoteLink,
		east.KindFootnoteBacklink, east.KindFootnote, east.KindFootnoteList, east.KindStrikethrough, east.KindTable,
		east.KindTableRow, east.KindTableHeader, east.KindTableCell, east.KindTaskCheckBox} {
		publicKinds[k] = true
	}
}

type checker struct {
	src   []byte
	seen  map[ast.Node]bool
	probs []Problem
}

func (c *checker) add(clause string, n ast.Node, format string, args ...any) {
	if len(c.probs) >= 8 {
		return
	}
	pk := "-"
	if n != nil && n.Parent() != nil {
		pk = n.Parent().Kind().String()
	}
	k := "-"
	if n != nil {
		k = n.Kind().String()
	}
	c.probs = append(c.probs, Problem{Sig: clause + ":" + pk + ">" + k, Detail: fmt.Sprintf(format, args...)})
}

func (c *checker) seg(clause string, n ast.Node, s text.Segment) bool {
	if s.Start < 0 || s.Start > s.Stop || s.Stop > len(c.src) {
		c.add(clause, n, "segment [%d,%d) outside source of length %d", s.Start, s.Stop, len(c.src))
		return false
	}
	return true
}

// Check validates the tree rooted at doc against source src.
func Check(doc ast.Node, src []byte) []Problem {
	c := &checker{src: src, seen: map[ast.Node]bool{}}
	if doc.Kind() != ast.KindDocument || doc.Parent() != nil {
		c.add("root", doc, "root is %s with parent %v", doc.Kind(), doc.Parent())
	}
	c.node(doc, false)
	return c.probs
}

func (c *checker) node(n ast.Node, inLink bool) {
	if c.seen[n] {
		c.add("dup", n, "node reachable twice")
		return
	}
	c.seen[n] = true
	// --- structure
	var kids []ast.Node
	var prev ast.Node
	for ch := n.FirstChild(); ch != nil; ch = ch.NextSibling() {
		if len(kids) > len(c.src)*4+64 {
			c.add("cycle", n, "sibling chain does not terminate")
			return
		}
		if ch.Parent() != n {
			c.add("parent", ch, "child %d has wrong Parent", len(kids))
		}
		if ch.PreviousSibling() != prev {
			c.add("prev", ch, "child %d PreviousSibling mismatch", len(kids))
		}
		kids = append(kids, ch)
		prev = ch
	}
	if n.LastChild() != prev {
		c.add("last", n, "LastChild is not the end of the forward chain")
	}
	if n.ChildCount() != len(kids) {
		c.add("count", n, "ChildCount=%d but %d children", n.ChildCount(), len(kids))
	}
	if n.HasChildren() != (len(kids) > 0) {
		c.add("haschildren", n, "HasChildren=%v with %d children", n.HasChildren(), len(kids))
	}
	// --- kinds and placement
	k := n.Kind()
	if !publicKinds[k] {
		c.add("kind", n, "non-public node kind %s in finished tree", k)
	}
	p := n.Parent()
	switch n.Type() {
	case ast.TypeInline:
		if p == nil || (p.Type() != ast.TypeBlock && p.Type() != ast.TypeInline) {
			c.add("inline-place", n, "inline node not below a block or inline")
		}
	case ast.TypeBlock:
		if p == nil || p.Type() == ast.TypeInline {
			c.add("block-place", n, "block node below an inline node or without parent")
		}
	case ast.TypeDocument:
		if p != nil {
			c.add("doc-place", n, "document node is not the root")
		}
	}
	switch v := n.(type) {
	case *ast.ListItem:
		if p == nil || p.Kind() != ast.KindList {
			c.add("listitem-place", n, "ListItem outside a List")
		}
	case *ast.List:
		for _, ch := range kids {
			if ch.Kind() != ast.KindListItem {
				c.add("list-child", ch, "List holds a non-ListItem child")
			}
		}
	case *ast.CodeSpan:
		for _, ch := range kids {
			if ch.Kind() != ast.KindText {
				c.add("codespan-child", ch, "CodeSpan holds a non-Text child")
			}
		}
	case *ast.Link:
		if inLink {
			c.add("link-in-link", n, "Link nested in a Link")
		}
		inLink = true
	case *ast.Heading:
		if v.Level < 1 || v.Level > 6 {
			c.add("heading-level", n, "heading level %d", v.Level)
		}
	case *ast.Emphasis:
		if v.Level < 1 || v.Level > 2 {
			c.add("emphasis-level", n, "emphasis level %d", v.Level)
		}
	case *ast.Text:
		c.seg("text-seg", n, v.Segment)
	case *ast.RawHTML:
		if v.Segments != nil {
			last := -1
			for i := 0; i < v.Segments.Len(); i++ {
				s := v.Segments.At(i)
				if c.seg("rawhtml-seg", n, s) {
					if s.Start < last {
						c.add("rawhtml-order", n, "raw HTML segments out of order")
					}
					last = s.Stop
				}
			}
		}
	case *ast.HTMLBlock:
		if v.HasClosure() {
			c.seg("closure-seg", n, v.ClosureLine)
		}
	case *ast.FencedCodeBlock:
		if v.Info != nil {
			c.seg("info-seg", n, v.Info.Segment)
		}
	}
	// --- block lines
	if n.Type() != ast.TypeInline {
		lines := n.Lines()
		ok := true
		lastStop := -1
		for i := 0; i < lines.Len(); i++ {
			s := lines.At(i)
			if !c.seg("line-seg", n, s) {
				ok = false
				continue
			}
			if s.Start < lastStop {
				c.add("line-order", n, "line %d [%d,%d) starts before the end %d of the previous line", i, s.Start, s.Stop, lastStop)
				ok = false
			}
			lastStop = s.Stop
		}
		// inline content in document order inside the block's line span
		if ok && lines.Len() > 0 && len(kids) > 0 && kids[0].Type() == ast.TypeInline {
			lo, hi := lines.At(0).Start, lines.At(lines.Len()-1).Stop
			pos := lo
			c.inlineOrder(n, n, lo, hi, &pos)
		}
	}
	for _, ch := range kids {
		c.node(ch, inLink)
	}
}

func (c *checker) inlineOrder(block, n ast.Node, lo, hi int, pos *int) {
	for ch := n.FirstChild(); ch != nil; ch = ch.NextSibling() {
		if t, ok := ch.(*ast.Text); ok {
			s := t.Segment
			if s.Start < 0 || s.Start > s.Stop || s.Stop > len(c.src) {
				continue // reported by text-seg
			}
			if s.Start < lo || s.Stop > hi {
				c.add("text-outside-block", ch, "text [%d,%d) outside block span [%d,%d)", s.Start, s.Stop, lo, hi)
			} else if s.Start < *pos {
				c.add("text-order", ch, "text [%d,%d) starts before %d (end of preceding text)", s.Start, s.Stop, *pos)
			} else {
				*pos = s.Stop
			}
		}
		if ch.Type() == ast.TypeInline {
			c.inlineOrder(block, ch, lo, hi, pos)
		}
	}
}
