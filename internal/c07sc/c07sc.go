// Package c07sc defines the concurrency scenarios of C07: small closed drivers in which 2–3 goroutines use one shared
// Markdown / Parser / Renderer. It is linked both into the instrumented explorer (cmd/c07run) and into the free-running
// race-detector pass (cmd/c07race).
package c07sc

import (
	"bytes"
	"errors"
	"strings"

	"github.com/yuin/goldmark"
	"github.com/yuin/goldmark/ast"
	"github.com/yuin/goldmark/text"

	"verif/internal/core"
)

// Result of one thread body.
type Result struct {
	Out []byte
	Err error
}

// Instance is one freshly built shared object plus the thread bodies that use it.
type Instance struct {
	Bodies []func() Result
}

// Scenario is a named driver.
type Scenario struct {
	Name    string
	What    string
	Threads int
	New     func(cfg core.Cfg) *Instance
}

// SinkA and SinkB contain the same constructs in the same order with different literals everywhere, so that any value
// travelling through shared memory shows up as foreign text in the other thread's output.
const SinkA = `Alpha one
=========

## Beta *two* {#idA .clsA data-a="vA" title=tA lang=lA slot=sA draggable=true itemref=iA dir=ltr role=rA tabindex=1 hidden accesskey=kA spellcheck=false translate=no style="c:A"}

- tight1
- tight2

1. loose1

2. loose2

7) start7

> quoteA
lazyA

    indentedA

` + "```go&#67;A x&amp;A\nfencedA\n```" + `

<DIV class="a">htmlA</DIV>

<Section>
secA
</Section>

***

	codeTabA

a <!-- cmtA --> <?piA?> b

漢字A
かなA 全角A
mixA漢

[refA]: /url&#68;A "title&#69;A"

[ÄΣ refA]: /foldA

[r2A]: /two&#65;A
[r3A]: <three A> (t3A)
restA [r2A] [r3A]

[äσ  REFa] [ÄΣ REFA][]

[textA][refA] [refA][] [refA] ![imgA
alt2A *emA*
alt3A](/imgA&#70;.png "ititle&#71;A") <http://autoA.example/ä A>

[destA](/dest&#65;A?q=&amp;x\_y&copy; "ti&#66;tle&reg;A\"") [emptyA]() [angleA](</a b&#72;> 'sq&#73;A')

*emA **strongA*** ` + "`` codeA ` ``" + ` &amp; &#65; \*escA\* lineA
breakA

| hA | hB | hC |
|:---|---:|:--:|
| a1 | ` + "`a\\|2`" + ` | a3 |
| a4 | a5 | a6 | a7 |
| a8 |

~~strikeA~~ www.linkA.example mailA@example.com

- [ ] taskA
- [x] doneA

FnA[^a] and again[^a].

[^a]: noteA

TermA
: defA

"quotedA" -- dashA...
`

const SinkB = `Bravo uno
=========

## Delta *dos* {#idB .clsB data-b='vB' translate=yes spellcheck=true accesskey=kB tabindex=2 role=rB dir=rtl itemref=iB draggable=false slot=sB lang=lB title=tB style="c:B" inert}

- sharp1
- sharp2

1. wide1

2. wide2

3) start3

> quoteB
lazyB

    indentedB

` + "~~~~rb&#x63;B y&lt;B\nfencedB\n~~~~" + `

<Div id="b">htmlB</Div>

<TABLE>
<TR><TD>cellB</TD></TR>
</TABLE>

___

	codeTabB

a <!-- cmtB --> <?piB?> b

日本B
カナB 半角B
mixB字

[refB]: /url&#x64;B
  'title&#x65;B'
[ЖẞrefB]:
/foldB

[r2B]:
</two b> "t2
B"
restB [r2B]

[жßREFb] [ЖẞREFB][]

[textB][refB] [refB][] [refB] ![imgB
alt2B *emB*
alt3B](/imgB&#x6a;.gif "ititle&#x6b;B") <https://autoB.example/ö B>

[destB](/dest&#x61;B?q=&lt;x\*y&para; "ti&#x62;tle&deg;B\'") [emptyB]() [angleB](</b c&#x6c;> 'sq&#x6d;B')

_emB __strongB___ ` + "` codeB `" + ` &lt; &#x42; \_escB\_ lineB\
breakB

| kA | kB | kC | kD | kE |
|---:|:--:|:---|----|:---|
| b1 | ` + "`b\\|2`" + ` | b3 |
| b4 |
| b5 | b6 | b7 | b8 | b9 | b10 |

~~strikeB~~ www.linkB.example mailB@example.org

- [x] taskB
- [ ] doneB

FnB[^b] and again[^b].

[^b]: noteB

TermB
: defB

'quotedB' --- dashB...
`

const (
	// numeric references and escapes but no named entity: the entity table (21 k statements to build) is raced in S6
	tiny1    = "a *b* [c](/d&#65;\\_ \"t&#66;\") [Äx]\n\n[äX]: /f1\n"
	tiny2    = "# e &#67; {title=t2 lang=l2 slot=s2}\n\n- f `g` [h](/i&#x68; 'u&#x69;') [Жy][]\n\n[жY]: /f2\n"
	tiny3    = "> h &#74;\n\n## k {slot=s3 title=t3 lang=l3 itemref=i3}\n\n1. i ![j\n   j2](/k&#75;) [Σz]\n\n[σZ]: /f3\n"
	twoInst1 = "Title one\n===\n\nSub one {#x1 .c1}\n---\n\n# atx one #\n\nline\nbreak ![i\nj](/u1) <b>r</b>\n\n- [ ] t1\n\n| a |\n|:--|\n| b |\n\nx[^1] \"q\" --\n\n[^1]: n1\n"
	twoInst2 = "Title two\n===\n\nSub two {#x2 .c2}\n---\n\n## atx two\n\nline\nbreak ![k\nl](/u2) <i>r</i>\n\n- [x] t2\n\n| c | d |\n|--:|:-:|\n| e |\n\ny[^2] 'q' ...\n\n[^2]: n2\n"
	twoInst3 = "Title three\n===\n\n### atx three {#x3}\n\nSub three\n---\n\nw\nz\n"
	warm     = "warm *up* &amp; [x](/y) `z`\n\n| a |\n|---|\n| b |\n"
	ent1     = "&amp; x &copy;\n"
	ent2     = "[a](/u?&para;=1 \"&reg;\")\n"
)

// failAfter accepts k bytes in total and then fails every write.
type failAfter struct {
	left int
	got  bytes.Buffer
}

func (w *failAfter) Write(p []byte) (int, error) {
	if len(p) <= w.left {
		w.left -= len(p)
		w.got.Write(p)
		return len(p), nil
	}
	n := w.left
	w.got.Write(p[:n])
	w.left = 0
	return n, errFailAfter
}

var errFailAfter = errors.New("destination failed")

// convertBody converts doc from a buffer the goroutine owns and overwrites that buffer as soon as Convert has returned
// (a server reusing its request buffer): nothing the instance keeps may still point into it.
func convertBody(md goldmark.Markdown, doc string) func() Result {
	return func() Result {
		var b bytes.Buffer
		src := []byte(doc)
		err := md.Convert(src, &b)
		for i := range src {
			src[i] = "<s \"&'>\n"[i%8]
		}
		return Result{b.Bytes(), err}
	}
}

func converts(warmup bool, docs ...string) func(cfg core.Cfg) *Instance {
	return func(cfg core.Cfg) *Instance {
		md := cfg.New()
		if warmup {
			var b bytes.Buffer
			_ = md.Convert([]byte(warm), &b)
		}
		in := &Instance{}
		for _, d := range docs {
			in.Bodies = append(in.Bodies, convertBody(md, d))
		}
		return in
	}
}

// CollideA and CollideB: one two-line paragraph per rune r: "x r LF r y".
var CollideA, CollideB = collideDoc(0x4E00, 0x21), collideDoc(0x5200, 0x6821)

func collideDoc(cjkBase, punctBase rune) string {
	var b strings.Builder
	for k := rune(0); k < 1024; k++ {
		r := cjkBase + k
		b.WriteString("x" + string(r) + "\n" + string(r) + "y\n\n")
	}
	for k := rune(0); k < 94; k++ {
		r := punctBase + k
		if r < 0x80 {
			switch r {
			case '<', '>', '&', '[', ']', '*', '_', '`', '\\', '#', '-', '+', '=', '|', '~', ':', '!', '"', '\'':
				// keep the paragraph a paragraph: punctuation that starts blocks or inlines is escaped or wrapped in letters
				b.WriteString("x\\" + string(r) + "\nz\\" + string(r) + "y\n\n")
				continue
			}
		}
		b.WriteString("x" + string(r) + "\nz" + string(r) + "y\n\n")
	}
	return b.String()
}

// HistoryDocs are converted one after the other, before the goroutines start, by scenario S8: documents that leave
// unusual parser state behind when they end (open containers and fences ended by other openers, empty and marker-only
// list items, unclosed delimiters and brackets, definitions without uses, footnotes without references, tables cut short,
// headings with colliding ids). A correct instance carries nothing over; a pooled or cached object handed back in a bad
// state by one of them is then shared by the concurrent conversions.
var HistoryDocs = []string{
	"> ```\n```\ncode\n```\n", "- ```\n```\ncode\n", "> ~~~\n> a\n~~~\nb\n", "```\n", "> ```", "- a\n\n      ```\n",
	"-\n\n  foo\n", "- a\n-\n", "1.\n2.\n   a\n", "-\n  -\n    a\n", "*\n*\n*\n", ">\n> a\n>\n", "- > - a\n",
	"*a **b `c\n", "[a [b ![c\n", "[x]: /y\n", "[x]: /y 'unclosed\n", "[^f]: unused\n", "a[^g]\n", "\"q 'r -- ...\n",
	"|a|b|\n|-|\n", "|a|\n|:-:|\n|b|c|d|\n", "# a\n\n# a\n\n# a-1\n", "# h {#i .c\n", "<div>\n*a*\n", "<!--\n", "<pre>\n</PRE>\n",
	"&#0; &#x110000; &bogus; &amp\n", "a\\\n\\\nb  \n", "\t\tx\n- \ty\n", "www.a.bc(d http://e.f/(g a@b.cd.\n", "- [ ] \n- [x]\n",
	"T\n: d\n\n: e\nU\n", "~~a~b~~~\n", "![a  \nb](c \"d\\\"\")\n", strings.Repeat("[", 40) + "a" + strings.Repeat("]", 40) + "\n", strings.Repeat("> ", 30) + "a\n",
}

func convertsAfterHistory(docs ...string) func(cfg core.Cfg) *Instance {
	return func(cfg core.Cfg) *Instance {
		md := cfg.New()
		for _, h := range HistoryDocs {
			var b bytes.Buffer
			_ = md.Convert([]byte(h), &b)
		}
		in := &Instance{}
		for _, d := range docs {
			in.Bodies = append(in.Bodies, convertBody(md, d))
		}
		return in
	}
}

// Scenarios lists all drivers.
var Scenarios = []Scenario{
	{"S0-convert2-micro-first", "two goroutines Convert two one-line documents on a new shared Markdown: the executions are almost entirely lazy initialisation, which is where a second preemption matters", 2, converts(false, "a *b*\n", "# c\n")},
	{"S1-convert2-tiny-first", "two goroutines Convert two tiny documents on a new shared Markdown (first use races)", 2, converts(false, tiny1, tiny2)},
	{"S2-convert2-sink-first", "two goroutines Convert two kitchen-sink documents (same constructs, different literals) on a new shared Markdown", 2, converts(false, SinkA, SinkB)},
	{"S3-convert2-sink-warm", "as S2 on a warmed-up instance", 2, converts(true, SinkA, SinkB)},
	{"S4-convert3-tiny-first", "three goroutines Convert three tiny documents on a new shared Markdown", 3, converts(false, tiny1, tiny2, tiny3)},
	{"S5-parse-render", "goroutine 0 parses and renders a document with the shared Parser and Renderer while goroutine 1 renders a tree (parsed beforehand by another instance) with the same Renderer, and goroutine 2 parses another document with the same Parser", 3,
		func(cfg core.Cfg) *Instance {
			md := cfg.New()
			other := cfg.New()
			src2 := []byte(tiny2)
			tree2 := other.Parser().Parse(text.NewReader(src2))
			return &Instance{Bodies: []func() Result{
				func() Result {
					src := []byte(tiny1)
					doc := md.Parser().Parse(text.NewReader(src))
					var b bytes.Buffer
					err := md.Renderer().Render(&b, src, doc)
					return Result{b.Bytes(), err}
				},
				func() Result {
					var b bytes.Buffer
					err := md.Renderer().Render(&b, src2, tree2)
					return Result{b.Bytes(), err}
				},
				func() Result {
					src := []byte(tiny3)
					doc := md.Parser().Parse(text.NewReader(src))
					var b bytes.Buffer
					b.WriteString(dumpKinds(doc))
					return Result{b.Bytes(), nil}
				},
			}}
		}},
	{"S6-entity-first", "two goroutines whose documents reach the lazily built HTML5 entity table for the first time, one from text and one from a link destination and title", 2, converts(false, ent1, ent2)},
	{"S8-convert2-sink-after-history", "as S2 after the instance has converted, one after the other, a list of documents that end in unusual parser states (HistoryDocs)", 2, convertsAfterHistory(SinkA, SinkB)},
	{"S9-convert3-failing-writers", "three goroutines Convert on a new shared Markdown: one into a writer that fails after 20 bytes, one into a healthy buffer, one into a writer that refuses every byte; each must get exactly the accepted bytes and the error it gets when run alone (a fault in one conversion must not leak into another)", 3,
		func(cfg core.Cfg) *Instance {
			md := cfg.New()
			failing := func(doc string, k int) func() Result {
				return func() Result {
					w := &failAfter{left: k}
					err := md.Convert([]byte(doc), w)
					return Result{w.got.Bytes(), err}
				}
			}
			return &Instance{Bodies: []func() Result{failing(tiny1, 20), convertBody(md, tiny2), failing(tiny3, 0)}}
		}},
	{"S10-two-instances", "two differently configured instances in one process: goroutines 0 and 2 Convert on instance A (the configuration's extensions only, no parser or renderer options) while goroutine 1 makes the first use of instance B (the full configuration: its options arrive through the option channels at first use); every call must return what it returns alone — an instance's set-up must not reach into another instance", 3,
		func(cfg core.Cfg) *Instance {
			plain := cfg
			plain.AutoID, plain.Attr, plain.Unsafe, plain.XHTML, plain.HardWraps, plain.Explicit = false, false, false, false, false, false
			full := cfg
			full.AutoID, full.Attr, full.XHTML, full.HardWraps = true, true, true, true
			a, b := plain.New(), full.New()
			return &Instance{Bodies: []func() Result{convertBody(a, twoInst1), convertBody(b, twoInst2), convertBody(a, twoInst3)}}
		}},
	{"S11-same-document", "three goroutines Convert the SAME document, each from its own buffer which it overwrites after its call has returned: a result memoised per source text by one call must not point into that call's buffer", 3, converts(false, tiny1, tiny1, tiny1)},
	{"S12-colliding-runes", "two goroutines Convert documents whose soft line breaks are flanked by runes chosen to collide in any table indexed by the low 10 (or fewer) bits of the code point: goroutine 0 uses U+4E00..U+51FF and the ASCII punctuation, goroutine 1 uses U+5200..U+55FF and U+6821..U+687E (same residues modulo 1024); East Asian width / line-break classification caches are the target", 2, converts(false, CollideA, CollideB)},
	{"S7-default-instance", "two goroutines call the package-level goldmark.Convert (shared default instance)", 2,
		func(cfg core.Cfg) *Instance {
			mk := func(doc string) func() Result {
				return func() Result {
					var b bytes.Buffer
					err := goldmark.Convert([]byte(doc), &b)
					return Result{b.Bytes(), err}
				}
			}
			return &Instance{Bodies: []func() Result{mk(tiny1), mk(tiny2)}}
		}},
}

func dumpKinds(n ast.Node) string {
	var b bytes.Buffer
	_ = ast.Walk(n, func(n ast.Node, entering bool) (ast.WalkStatus, error) {
		if entering {
			b.WriteString(n.Kind().String())
			b.WriteByte(' ')
		}
		return ast.WalkContinue, nil
	})
	return b.String()
}

// Find returns the scenario with the given name (prefix match on "S<n>").
func Find(name string) *Scenario {
	for i := range Scenarios {
		if Scenarios[i].Name == name || strings.HasPrefix(Scenarios[i].Name, name+"-") {
			return &Scenarios[i]
		}
	}
	return nil
}
